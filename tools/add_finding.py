"""Append an entry to known_findings.json (developer tool, never run by checks)."""
import json
import sys

entry = json.loads(sys.stdin.read())
d = json.load(open("known_findings.json"))
d["findings"] = [e for e in d["findings"] if e["id"] != entry["id"]] + [entry]
json.dump(d, open("known_findings.json", "w"), indent=1)
open("known_findings.json", "a").write("\n")
print("findings:", len(d["findings"]))
