"""Evaluate every known_findings repro against the liquid tree on PYTHONPATH.

usage: PYTHONPATH=<repo>:/verif python tools/check_repros.py [Cxx]
Prints, per entry, whether its repro currently fails in its recorded bucket.
"""
import json
import sys

sys.path.insert(0, ".")
from vf import core  # noqa: E402
from vf.run import _module_for  # noqa: E402

import liquid  # noqa: E402

print("liquid from", liquid.__file__)
only = sys.argv[1] if len(sys.argv) > 1 else None
for e in json.load(open("known_findings.json"))["findings"]:
    if only and e["property"] != only:
        continue
    mod = _module_for(e["property"])
    v = mod.evaluate(e["repro"])
    buckets = [b for b, _ in v.failures]
    hit = any(core.bucket_matches(e, b) for b in buckets)
    print(f"{e['id']:45s} status={e['status']:6s} fails_in_bucket={hit} buckets={buckets[:3]}")
