"""File the deliverables of a seeding round under /verif/seeded (developer tool).

usage: tools/file_seeds.py <prefix> [ids...]     e.g. tools/file_seeds.py /tmp/seed4_ C02 C03

For every <prefix><Cxx>/out/{patch,demo,meta}{1,2} that is complete, copies it to
seeded/<Cxx>-<n>/ (patch.diff, demo.py, meta.json) with n the next free number.
Prints the new ids; tools/seed_matrix.py <ids> then confirms each one.
"""

from __future__ import annotations

import glob
import json
import os
import shutil
import sys

ROOT = os.path.dirname(os.path.dirname(os.path.abspath(__file__)))


def main() -> None:
    prefix = sys.argv[1]
    ids = sys.argv[2:] or sorted(p[len(prefix):] for p in glob.glob(prefix + "C??"))
    new = []
    for pid in ids:
        out = f"{prefix}{pid}/out"
        for k in (1, 2):
            files = [f"{out}/patch{k}.diff", f"{out}/demo{k}.py", f"{out}/meta{k}.json"]
            if not all(os.path.isfile(f) and os.path.getsize(f) for f in files):
                print(f"{pid} change {k}: incomplete, skipped", file=sys.stderr)
                continue
            n = 1
            while os.path.isdir(os.path.join(ROOT, "seeded", f"{pid}-{n}")):
                n += 1
            d = os.path.join(ROOT, "seeded", f"{pid}-{n}")
            os.makedirs(d)
            shutil.copy(files[0], d + "/patch.diff")
            shutil.copy(files[1], d + "/demo.py")
            try:
                meta = json.load(open(files[2]))
            except Exception as e:  # noqa: BLE001
                meta = {"property": pid, "summary": open(files[2]).read(), "needs": "", "note": f"meta was not valid JSON: {e}"}
            meta["property"] = pid
            meta["breaks_property"] = pid
            meta["round"] = prefix.rstrip("_").split("/")[-1]
            json.dump(meta, open(d + "/meta.json", "w"), indent=1)
            new.append(f"{pid}-{n}")
    print(" ".join(new))


if __name__ == "__main__":
    main()
