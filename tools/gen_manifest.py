"""Regenerate MANIFEST.json from vf/manifest_data.py (run from /verif)."""
import json
import sys
from pathlib import Path

sys.path.insert(0, str(Path(__file__).resolve().parent.parent))
from vf import manifest_data as md  # noqa: E402

PRE = "PYTHONPATH=/repo:. PYTHONDONTWRITEBYTECODE=1 PYTHONHASHSEED=0 /venv/bin/python -m vf.run"
checks = []
for pid, d in sorted(md.CHECKS.items()):
    checks.append(
        {
            "property_id": pid,
            "quick_cmd": f"{PRE} {pid} quick",
            "thorough_cmd": f"{PRE} {pid} thorough",
            "evidence_file": f"/verif/evidence/{pid}.json",
            "replay_cmd_template": f"{PRE} --replay {{path}}",
            "engine": d.get("engine", "hypothesis+enumeration"),
            "level_claimed": {"category": d.get("category", "exploration"), "text": d["text"], "design_ref": d["design_ref"]},
            "level_note": d["note"],
            "technique": d["technique"],
        }
    )
manifest = {
    "version": 1,
    "setup_cmd": md.SETUP,
    "hooks": md.HOOKS,
    "engines": md.ENGINES,
    "checks": checks,
    "notes": md.NOTES,
    "not_applicable": md.NOT_APPLICABLE,
}
Path("MANIFEST.json").write_text(json.dumps(manifest, indent=1) + "\n")
print("wrote MANIFEST.json with", len(checks), "checks;", len(md.NOT_APPLICABLE), "not_applicable")
