#!/bin/bash
# usage: tools/mut.sh <Cxx> <file-relative-to-repo> <python-regex> <replacement>
# Applies one textual mutation in a scratch worktree of /repo HEAD, checks the repo's tests
# still pass there, runs the quick check against it, then resets the worktree.
set -u
WT=/tmp/wt_mut
[ -d $WT ] || git -C /repo worktree add -q --detach $WT HEAD
git -C $WT checkout -q --detach $(git -C /repo rev-parse HEAD) 2>/dev/null
git -C $WT checkout -q -- .
PID=$1; FILE=$2; PAT=$3; REP=$4
/venv/bin/python - "$WT/$FILE" "$PAT" "$REP" <<'PY'
import re, sys
p, pat, rep = sys.argv[1:4]
s = open(p).read()
n = len(re.findall(pat, s, flags=re.S))
if n == 0:
    print("MUTATION DID NOT APPLY"); sys.exit(3)
s2 = re.sub(pat, rep, s, count=1, flags=re.S)
open(p, "w").write(s2)
print(f"mutated {p} ({n} match(es), first replaced)")
PY
[ $? -eq 0 ] || exit 3
git -C $WT diff --stat | tail -1
(cd $WT && timeout 300 /venv/bin/python -m pytest -q -p no:cacheprovider --continue-on-collection-errors 2>&1 | tail -1; rm -rf $WT/.hypothesis/examples)
cd /verif
for p in $PID; do
PYTHONPATH=$WT:. PYTHONDONTWRITEBYTECODE=1 PYTHONHASHSEED=0 /venv/bin/python -m vf.run $p quick 2>&1 | grep -E "^VIOLATION|bucket=|^C[0-9]+ |HARNESS" | cut -c1-300 | head -${MUT_LINES:-8}
done
git -C $WT checkout -q -- .
git -C /verif checkout -q -- ':(glob)evidence/*.json' 2>/dev/null
