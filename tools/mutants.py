"""Sensitivity suite: break each property on purpose and confirm its check fires.

Developer tool (never run by a registered check).  Each mutant is one textual
edit of the library (python regex -> replacement, first match), applied in a
scratch worktree of /repo HEAD outside /repo and /verif, against which the
repository's tests and the property's quick check are run; the edit is undone
straight afterwards.  Results are written to seeded/SENSITIVITY.md.

usage: tools/mutants.py [ids or Cxx ...]
"""

from __future__ import annotations

import json
import os
import re
import subprocess
import sys

WT = "/tmp/wt_mut2"
PY = "/venv/bin/python"
ROOT = os.path.dirname(os.path.dirname(os.path.abspath(__file__)))

M = [
    # id, check, file, pattern, replacement, what it breaks
    ("C01-m1", "C01", "liquid/builtin/tags/case_tag.py", r"(await self\.block\.render_async\(context, buffer\)\n\s+for _ in range\()matches\.count\(True\)", r"\g<1>1", "async case renders a when block once even if several of its values match"),
    ("C01-m2", "C01", "liquid/builtin/expressions/filtered.py", r"(rv = await self\.alternative\.evaluate_async\(context\)\n\s+if )self\.filters:", r"\g<1>False:", "async ternary drops the alternative's filters"),
    ("C02-m1", "C02", "liquid/template.py", r"except Exception as err:  # noqa: BLE001\n(\s+)# Like `Environment\.from_string`", r"except ArithmeticError as err:  # noqa: BLE001\n\1# Like `Environment.from_string`", "render-time containment only for arithmetic errors"),
    ("C02-m2", "C02", "liquid/template.py", r"(await node\.render_async\(context, buffer\)(?:.|\n)*?)except Exception as err:  # noqa: BLE001", r"\1except ArithmeticError as err:  # noqa: BLE001", "async render-time containment only for arithmetic errors"),
    ("C02-m3", "C02", "liquid/environment.py", r'except Exception as err:  # noqa: BLE001\n(\s+)raise LiquidError\("unexpected liquid parsing error"', r'except ValueError as err:  # noqa: BLE001\n\1raise LiquidError("unexpected liquid parsing error"', "parse-time containment only for ValueError (equivalent on this tree unless some parse path raises another exception type)"),
    ("C03-m1", "C03", "liquid/template.py", r"(# Raise or warn according to the current mode\.\n\s+)self\.env\.error\(err, token=node\.token\)", r"\1raise", "render errors are raised in every mode"),
    ("C03-m3", "C03", "liquid/builtin/tags/if_tag.py", r"except LiquidSyntaxError as err:\n(\s+)self\.env\.error\(err\)", r"except LiquidSyntaxError as err:\n\1raise", "if tag re-raises a bad elsif expression (equivalent: Tag.get_node applies the mode one level up)"),
    ("C03-m2", "C03", "liquid/environment.py", r"if self\.mode == Mode\.WARN:", "if False:", "warn mode reports nothing"),
    ("C04-m1", "C04", "liquid/builtin/expressions/path.py", r'buf = \[f"\[\{root\}\]"\]', 'buf = [f"{root}"]', "Path.__str__ drops the brackets of a nested root"),
    ("C04-m2", "C04", "liquid/builtin/tags/for_tag.py", r'(def __str__\(self\) -> str:\n(?:.*\n)*?.*)\{% else %\}', r"\1{% elsif %}", "ForNode.__str__ prints else as elsif"),
    ("C05-m1", "C05", "liquid/builtin/filters/string.py", r"return Markup\(urllib\.parse\.quote_plus\(val\)\)", "return Markup(val)", "url_encode marks its input safe without encoding under autoescape"),
    ("C05-m2", "C05", "liquid/builtin/filters/string.py", r"        return markupsafe_escape\(str\(val\)\)\n    return html\.escape\(val\)", "        return Markup(str(val))\n    return html.escape(val)", "under autoescape the escape filter marks its input safe without escaping it"),
    ("C06-m1", "C06", "liquid/context.py", r"loop_iteration_carry = reduce\(", "loop_iteration_carry = 1 or reduce(", "render does not carry the enclosing loops' iteration count"),
    ("C07-m1", "C07", "liquid/output.py", r'self\.size \+= len\(__s\.encode\("utf-8"\)\)', "self.size += len(__s)", "output limit counts characters instead of bytes"),
    ("C07-m2", "C07", "liquid/context.py", r"local_namespace_size_carry=self\.get_size_of_locals\(\),\n(            \)\n\n        return ctx)", r"local_namespace_size_carry=0,\n\1", "namespace size not carried into rendered partials"),
    ("C06-m2", "C06", "liquid/context.py", r"> self\.env\.loop_iteration_limit\n", ">= self.env.loop_iteration_limit\n", "loop limit off by one"),
    ("C08-m1", "C08", "liquid/template.py", r"(    def render\(self, \*args: Any, \*\*kwargs: Any\) -> str:\n(?:.*\n)*?)(        self\.render_with_context\(context, buf\)\n)", r"\1        try:\n            self.render_with_context(context, buf)\n        except LiquidError as err:\n            if 'limit' not in str(err):\n                raise\n", "a resource limit error truncates the output instead of failing the render"),
    ("C08-m2", "C08", "liquid/output.py", r'newline: Optional\[str\] = "\\n"', "newline: Optional[str] = None", "limited buffer translates newlines"),
    ("C09-m1", "C09", "liquid/environment.py", r"except RecursionError as err:", "except KeyboardInterrupt as err:", "RecursionError while parsing a partial is no longer a ContextDepthError"),
    ("C09-m2", "C09", "liquid/builtin/tags/if_tag.py", r"(                    break\n)                next\(stream\)", r"\1                if stream.current.kind == TOKEN_TAG:\n                    next(stream)", "the if tag's skip loop stalls on a non-tag token after a second else"),
    ("C09-m3", "C09", "liquid/extra/tags/extends_tag.py", r"if extends_node\.name in seen:", "if extends_node.name in seen and len(seen) < 2:", "extends cycles longer than two are not detected"),
    ("C10-m1", "C10", "liquid/lex.py", r'lstrip = bool\(match\.group\("rsd"\)\)', 'lstrip = bool(match.group("lsd"))', "doc block takes its trailing strip flag from the opening tag"),
    ("C10-m2", "C10", "liquid/lex.py", r'lstrip = bool\(match\.group\("rsc"\)\)', "lstrip = False", "template comments ignore their right hyphen"),
    ("C11-m1", "C11", "liquid/lex.py", r"stmt_s = re\.escape\(statement_start_string\)", "stmt_s = statement_start_string", "statement start delimiter not escaped"),
    ("C11-m2", "C11", "liquid/builtin/tags/liquid_tag.py", r'comment_start_string = env\.comment_start_string\.replace\("\{", ""\)', 'comment_start_string = "#" if env.comment_start_string else ""', "liquid tag comment marker ignores the configured comment delimiter"),
    ("C11-m3", "C11", "liquid/environment.py", r"(            self\.statement_end_string,\n)            self\.comment_start_string,\n            self\.comment_end_string,\n(        \)\n\n    def add_tag)", r'\1            "{#" if self.comment_start_string else "",\n            "#}" if self.comment_start_string else "",\n\2', "lexer built with default comment delimiters whatever is configured"),
    ("C12-m1", "C12", "liquid/builtin/expressions/logical.py", r"TOKEN_AND: PRECEDENCE_LOGICAL_RIGHT", "TOKEN_AND: PRECEDENCE_LOGICAL_AND", "and binds tighter than or"),
    ("C12-m2", "C12", "liquid/builtin/expressions/logical.py", r"return not \(obj is False or obj is None\)", "return bool(obj) or obj == 0 and obj is not False", "empty strings and arrays become falsy"),
    ("C13-m1", "C13", "liquid/builtin/tags/for_tag.py", r"return self\.length - self\._index\n", "return self.length - self._index + 1\n", "forloop.rindex off by one"),
    ("C13-m2", "C13", "liquid/builtin/expressions/loop.py", r"context\.stopindex\(key=offset_key, index=stop_\)", "pass", "offset: continue never advances"),
    ("C13-m3", "C13", "liquid/builtin/tags/for_tag.py", r"(render_async\((?:.|\n)*?except ContinueLoop:\n\s+)continue", r"\1break", "async only: continue leaves the loop"),
    ("C06-m3", "C06", "liquid/builtin/tags/render_tag.py", r"(async def render_to_output_async(?:.|\n)*?)ctx\.loop_iteration_carry \*= len\(val\)", r"\1pass", "async only: render ... for does not carry its length into the partial"),
    ("C14-m2", "C14", "liquid/builtin/tags/assign_tag.py", r"context\.assign\(self\.name, await self\.expression\.evaluate_async\(context\)\)", "v = await self.expression.evaluate_async(context)\n        context.assign(self.name, v) if self.name not in context.locals else None", "async only: assign does not rebind an existing local"),
    ("C07-m3", "C07", "liquid/template.py", r"(async def render_async(?:.|\n)*?)buf = self\._get_buffer\(\)", r"\1buf = StringIO()", "async only: the root output buffer is unlimited"),
    ("C14-m1", "C14", "liquid/context.py", r"self\.scope = ReadOnlyChainMap\(self\.locals, self\.globals, builtin, self\.counters\)", "self.scope = ReadOnlyChainMap(self.globals, self.locals, builtin, self.counters)", "globals shadow assigned locals"),
    ("C15-m1", "C15", "liquid/builtin/tags/render_tag.py", r"disabled_tags=\[TAG_INCLUDE\],\n(\s+)carry_loop_iterations=True,", r"disabled_tags=[],\n\1carry_loop_iterations=True,", "include is allowed inside rendered partials"),
    ("C16-m1", "C16", "liquid/undefined.py", r"(    def __iter__\(self\) -> Iterator\[Any\]:\n        raise UndefinedError\(self\.msg, token=self\.token\)\n\n    def __str__\(self\) -> str:\n)        raise UndefinedError\(self\.msg, token=self\.token\)", r"\1        return '?'", "StrictUndefined prints '?' instead of raising"),
    ("C16-m2", "C16", "liquid/undefined.py", r"    def __len__\(self\) -> int:\n        return 0", "    def __len__(self) -> int:\n        return 1", "default undefined has length 1 (equivalent for C16: the property only relates the strict types to the default one)"),
    ("C17-m1", "C17", "liquid/builtin/expressions/loop.py", r"        if isinstance\(obj, Mapping\):\n            return iter\(obj\.items\(\)\), len\(obj\)", "        if isinstance(obj, dict):\n            obj.setdefault('_n', len(obj))\n        if isinstance(obj, Mapping):\n            return iter(obj.items()), len(obj)", "iterating a hash writes a key into the caller's data"),
    ("C17-m2", "C17", "liquid/builtin/filters/array.py", r"return list\(reversed\(array\)\)", "array.reverse(); return array", "reverse reverses in place (equivalent: sequence_filter hands the filter a flattened copy)"),
    ("C18-m1", "C18", "liquid/extra/tags/extends_tag.py", r"stack\[-2\]\.parent = stack\[-1\]", "stack[0].parent = stack[-1]", "block.super chains skip intermediate templates"),
    ("C19-m1", "C19", "liquid/static_analysis.py", r"visit_key = hash\(\(partial\.key, _visible_names\(partial, scope\)\)\)", "visit_key = partial.key", "partials visited once per argument names again"),
    ("C19-m2", "C19", "liquid/static_analysis.py", r"if expression\.tail_filters:", "if False:", "tail filters of ternaries are not reported"),
    ("C19-m3", "C19", "liquid/builtin/tags/for_tag.py", r'yield Identifier\("forloop", token=self\.token\)', 'yield Identifier("forloop", token=self.token)\n        yield Identifier("x", token=self.token)', "for blocks claim to bind x"),
    ("C20-m1", "C20", "liquid/builtin/tags/liquid_tag.py", r'start_index=token\.start_index \+ match\.start\("expr"\)', 'start_index=token.start_index + match.start("name")', "expressions in liquid tags located at their tag name"),
    ("C20-m2", "C20", "liquid/span.py", r"if self\.index < cumulative_length", "if self.index <= cumulative_length", "line_col off by one at line ends"),
    ("C20-m3", "C20", "liquid/stream.py", r"if last is not None and last\.start_index >= 0:", "if False:", "end-of-input errors lose their position again"),
    ("C21-m1", "C21", "liquid/analyze_tags.py", r'"if": \["else", "elsif"\]', '"if": ["else"]', "elsif inside if is reported as unexpected"),
    ("C22-m1", "C22", "liquid/builtin/loaders/file_system_loader.py", r"if os\.path\.pardir in template_path\.parts or template_path\.is_absolute\(\):", "if os.path.pardir in template_path.parts:", "absolute template names are joined to the search path as-is"),
    ("C22-m2", "C22", "liquid/builtin/loaders/file_system_loader.py", r"if not resolved\.is_relative_to\(base_resolved\):", "if not str(resolved).startswith(str(base_resolved)):", "symlink containment by string prefix"),
    ("C23-m1", "C23", "liquid/builtin/loaders/mixins.py", r'return f"\{args\[self\.namespace_key\]\}/\{name\}"', "return name", "cache key ignores the namespace"),
    ("C23-m2", "C23", "liquid/builtin/loaders/mixins.py", r"if self\.auto_reload and not cached_template\.is_up_to_date\(\):", "if False:", "cached templates are never reloaded"),
    ("C24-m1", "C24", "liquid/utils/lru_cache.py", r"(value = self\._cache\[key\]  # This will raise a KeyError if key is not cached\n)        self\._cache\.move_to_end\(key\)", r"\1        pass", "a hit does not refresh recency"),
    ("C25-m1", "C25", "liquid/builtin/filters/math.py", r"return max\(num, other\)", "return min(num, other)", "at_least returns the smaller value"),
    ("C25-m2", "C25", "liquid/builtin/filters/array.py", r"if sequence\.index\(obj\) == i\]", "if len(sequence) - 1 - sequence[::-1].index(obj) == i]", "uniq keeps the last occurrence"),
    ("C26-m1", "C26", "liquid/extra/filters/translate.py", r"    if val is None or isinstance\(val, bool\):\n        return None", "    if not val or isinstance(val, bool):\n        return None", "the t filter treats count: 0 as no count again"),
    ("C27-m1", "C27", "liquid/extra/tags/macro_tag.py", r"if arg\.name in macro\.args:", "if arg.name in macro.args and args.get(arg.name) is macro.args[arg.name].value:", "a keyword argument does not override an earlier positional one"),
]


def sh(cmd: str, cwd: str | None = None, env: dict | None = None, timeout: int = 1800) -> tuple[int, str]:
    e = dict(os.environ)
    e.update(env or {})
    try:
        p = subprocess.run(cmd, shell=True, cwd=cwd, env=e, capture_output=True, text=True, timeout=timeout)
        return p.returncode, p.stdout + p.stderr
    except subprocess.TimeoutExpired:
        return 124, "TIMEOUT"


def reset() -> None:
    head = sh("git -C /repo rev-parse HEAD")[1].strip()
    if not os.path.isdir(WT):
        sh(f"git -C /repo worktree add -q --detach {WT} HEAD")
    sh(f"git -C {WT} checkout -q --detach {head}; git -C {WT} checkout -q -- .; git -C {WT} clean -fdq")


def main() -> None:
    want = set(sys.argv[1:])
    out_path = os.path.join(ROOT, "seeded", "sensitivity.json")
    results = json.load(open(out_path)) if os.path.exists(out_path) else {}
    for mid, pid, rel, pat, rep, what in M:
        if want and mid not in want and pid not in want:
            continue
        if pat == rep:
            continue
        reset()
        path = os.path.join(WT, rel)
        if not os.path.exists(path):
            results[mid] = {"check": pid, "what": what, "applied": False, "note": "file not found"}
            print(mid, "FILE NOT FOUND", rel, flush=True)
            continue
        src = open(path).read()
        new, n = re.subn(pat, rep, src, count=1)
        if n == 0 or new == src:
            results[mid] = {"check": pid, "what": what, "applied": False, "note": "pattern did not match"}
            print(mid, "DID NOT APPLY", flush=True)
            continue
        open(path, "w").write(new)
        _, tests = sh(f"timeout 600 {PY} -m pytest -q -p no:cacheprovider --continue-on-collection-errors 2>&1 | tail -1", cwd=WT)
        sh(f"rm -rf {WT}/.hypothesis/examples {WT}/.hypothesis/constants")
        rc, out = sh(
            f"timeout 1500 {PY} -m vf.run {pid} quick", cwd=ROOT,
            env={"PYTHONPATH": f"{WT}:.", "PYTHONDONTWRITEBYTECODE": "1", "PYTHONHASHSEED": "0", "VERIF_SEED": "1"},
        )
        buckets = re.findall(r"^\s+bucket=(.*)$", out, flags=re.M)
        sh("git checkout -q -- ':(glob)evidence/*.json'", cwd=ROOT)
        results[mid] = {
            "check": pid, "file": rel, "what": what, "applied": True, "repo_tests": tests.strip(),
            "caught": rc == 1 and bool(buckets), "exit": rc, "buckets": buckets[:4],
        }
        print(mid, "caught" if results[mid]["caught"] else f"MISSED rc={rc}", "|", tests.strip(), "|", buckets[:2], flush=True)
        reset()
    json.dump(results, open(out_path, "w"), indent=1, sort_keys=True)
    lines = [
        "# Sensitivity of the checks to deliberate breakage", "",
        "One-line mutations of jg-rp/liquid (tools/mutants.py), each applied to a scratch worktree of /repo HEAD, with the",
        "repository's own test result and the verdict of the property's quick check (VERIF_SEED=1). A mutant that the",
        "repository's tests already reject is still listed (the check must reject it too).", "",
        "| mutant | check | file | what breaks | repo tests | caught by quick | first buckets |",
        "|--------|-------|------|-------------|------------|-----------------|---------------|",
    ]
    for mid in sorted(results):
        r = results[mid]
        if not r.get("applied"):
            lines.append(f"| {mid} | {r['check']} | - | {r['what']} | - | n/a ({r.get('note')}) | |")
            continue
        lines.append(
            f"| {mid} | {r['check']} | {r['file']} | {r['what']} | {r['repo_tests']} | {'yes' if r['caught'] else 'NO'} | "
            f"{'; '.join(r['buckets'][:2]).replace('|', '/')} |"
        )
    open(os.path.join(ROOT, "seeded", "SENSITIVITY.md"), "w").write("\n".join(lines) + "\n")


if __name__ == "__main__":
    main()
