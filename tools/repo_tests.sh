#!/bin/sh
# Run the repository's own test-suite (baseline command) without leaving
# Hypothesis example databases behind in /repo.
cd "${1:-/repo}" && /venv/bin/python -m pytest -q -p no:cacheprovider --timeout=900 --continue-on-collection-errors 2>&1 | tail -${2:-3}
rm -rf "${1:-/repo}/.hypothesis/examples" "${1:-/repo}/.hypothesis/constants"
