#!/bin/bash
# usage: tools/run_all.sh [tier] [seed]  -- run every registered check, print one line each
TIER=${1:-quick}; SEED=${2:-1}
cd /verif
for p in $(/venv/bin/python -c "import json;print(' '.join(c['property_id'] for c in json.load(open('MANIFEST.json'))['checks']))"); do
  /usr/bin/time -f "%es" -o /tmp/.t env VERIF_SEED=$SEED PYTHONPATH=/repo:. PYTHONDONTWRITEBYTECODE=1 PYTHONHASHSEED=0 /venv/bin/python -m vf.run $p $TIER > /tmp/.o 2>&1; rc=$?
  echo "$p rc=$rc $(cat /tmp/.t) $(grep -E "^C[0-9]+ " /tmp/.o | tail -1 | cut -c1-110) $(grep -c '^VIOLATION' /tmp/.o) viol $(grep -c '^KNOWN' /tmp/.o) known"
done
