#!/bin/bash
# usage: tools/run_thorough.sh [seed] [ids...] -- run thorough tiers, keep a copy of each evidence file under evidence/thorough/,
# then put the committed (quick) evidence file back.
SEED=${1:-1}; shift
cd /verif
mkdir -p evidence/thorough /tmp/thorough_logs
IDS=${@:-$(/venv/bin/python -c "import json;print(' '.join(c['property_id'] for c in json.load(open('MANIFEST.json'))['checks']))")}
for p in $IDS; do
  /usr/bin/time -f "%es" -o /tmp/.tt env VERIF_SEED=$SEED PYTHONPATH=/repo:. PYTHONDONTWRITEBYTECODE=1 PYTHONHASHSEED=0 /venv/bin/python -m vf.run $p thorough > /tmp/thorough_logs/$p.log 2>&1; rc=$?
  if grep -q '"tier": "thorough"' evidence/$p.json 2>/dev/null; then cp evidence/$p.json evidence/thorough/$p.json; fi
  git checkout -q -- evidence/$p.json 2>/dev/null
  echo "$p rc=$rc $(cat /tmp/.tt) $(grep -E "^C[0-9]+ " /tmp/thorough_logs/$p.log | tail -1 | cut -c1-120) $(grep -c '^VIOLATION' /tmp/thorough_logs/$p.log) viol $(grep -c '^KNOWN' /tmp/thorough_logs/$p.log) known"
done
