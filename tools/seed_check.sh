#!/bin/bash
# usage: tools/seed_check.sh <Cxx> <k> [tier]   -- validates /tmp/seed_<Cxx>/out/{patch,demo,meta}<k> and files it under seeded/
set -u
P=$1; K=$2; TIER=${3:-quick}
SRC=${SEED_SRC:-/tmp/seed_$P/out}
DK=${SEED_DEST_K:-$K}   # number under which the change is filed (second-round changes are filed as 3 and 4)
WT=/tmp/wt_mut
[ -d $WT ] || git -C /repo worktree add -q --detach $WT HEAD
git -C $WT checkout -q --detach $(git -C /repo rev-parse HEAD); git -C $WT checkout -q -- .; git -C $WT clean -fdq
echo "== $P-$K: demo on clean tree (expect 0)"; (cd /tmp && PYTHONPATH=$WT /venv/bin/python $SRC/demo$K.py >/dev/null 2>&1); echo "exit=$?"
if ! git -C $WT apply $SRC/patch$K.diff; then echo "PATCH DOES NOT APPLY"; exit 3; fi
git -C $WT diff --stat | tail -1
echo "== repo tests with the change"; (cd $WT && /venv/bin/python -m pytest -q -p no:cacheprovider --continue-on-collection-errors 2>&1 | tail -1; rm -rf $WT/.hypothesis/examples $WT/.hypothesis/constants)
echo "== demo with the change (expect 1)"; (cd /tmp && PYTHONPATH=$WT /venv/bin/python $SRC/demo$K.py 2>&1 | tail -3); (cd /tmp && PYTHONPATH=$WT /venv/bin/python $SRC/demo$K.py >/dev/null 2>&1); echo "exit=$?"
echo "== /verif check $P $TIER against the change"
cd /verif
PYTHONPATH=$WT:. PYTHONDONTWRITEBYTECODE=1 PYTHONHASHSEED=0 /venv/bin/python -m vf.run $P $TIER 2>&1 | grep -E "^VIOLATION|bucket=|^C[0-9]+ |HARNESS" | cut -c1-220 | head -${MUT_LINES:-8}
git -C $WT checkout -q -- .; git -C $WT clean -fdq
git -C /verif checkout -q -- ':(glob)evidence/*.json' 2>/dev/null
mkdir -p seeded/$P-$DK && cp $SRC/patch$K.diff seeded/$P-$DK/patch.diff && cp $SRC/demo$K.py seeded/$P-$DK/demo.py && cp $SRC/meta$K.json seeded/$P-$DK/meta.json
