"""Re-validate every seeded change under /verif/seeded against the current /repo HEAD.

Developer tool (never run by a registered check).  For each seeded/<id>/ it
applies patch.diff in a scratch worktree of /repo HEAD (outside /repo and
/verif), runs the repository's tests, the demo (clean and patched) and the
property's check (quick tier by default), undoes the patch, and records the
result in seeded/<id>/meta.json under "verif" and in seeded/MATRIX.md.

usage: tools/seed_matrix.py [--tier quick|thorough] [--also Cxx,Cyy] [ids...]
"""

from __future__ import annotations

import json
import os
import re
import subprocess
import sys
import time

WT = os.environ.get("SEED_WT", "/tmp/wt_mut")
PY = "/venv/bin/python"
ROOT = os.path.dirname(os.path.dirname(os.path.abspath(__file__)))


def sh(cmd: str, cwd: str | None = None, env: dict | None = None, timeout: int = 3600) -> tuple[int, str]:
    e = dict(os.environ)
    e.update(env or {})
    try:
        p = subprocess.run(cmd, shell=True, cwd=cwd, env=e, capture_output=True, text=True, timeout=timeout)
        return p.returncode, p.stdout + p.stderr
    except subprocess.TimeoutExpired:
        return 124, "TIMEOUT"


def reset(commit: str | None = None) -> None:
    head = commit or sh("git -C /repo rev-parse HEAD")[1].strip()
    if not os.path.isdir(WT):
        sh(f"git -C /repo worktree add -q --detach {WT} HEAD")
    sh(f"git -C {WT} reset -q --hard; git -C {WT} checkout -q --detach {head}; git -C {WT} reset -q --hard {head}; git -C {WT} clean -fdq")


def find_base(patch: str) -> str | None:
    """The newest commit of /repo (HEAD first) to which the patch applies cleanly."""
    commits = sh("git -C /repo log --format=%H -n 60")[1].split()
    for c in commits:
        reset(c)
        if sh(f"git -C {WT} apply --check {patch}")[0] == 0:
            return c
    return None


def run_check(pid: str, tier: str) -> tuple[bool, list, str]:
    rc, out = sh(
        f"{PY} -m vf.run {pid} {tier}", cwd=ROOT,
        env={"PYTHONPATH": f"{WT}:.", "PYTHONDONTWRITEBYTECODE": "1", "PYTHONHASHSEED": "0", "VERIF_SEED": "1"},
    )
    buckets = re.findall(r"^\s+bucket=(.*)$", out, flags=re.M)
    summary = (re.findall(r"^C\d+ \w+ seed=.*$", out, flags=re.M) or ["?"])[-1]
    sh("git checkout -q -- ':(glob)evidence/*.json'", cwd=ROOT)
    return rc == 1 and bool(buckets), buckets, summary


def main() -> None:
    args = sys.argv[1:]
    tier = "quick"
    if "--tier" in args:
        i = args.index("--tier")
        tier = args[i + 1]
        del args[i : i + 2]
    ids = args or sorted(d for d in os.listdir(os.path.join(ROOT, "seeded")) if os.path.isdir(os.path.join(ROOT, "seeded", d)))
    head = sh("git -C /repo rev-parse --short HEAD")[1].strip()
    rows = []
    for sid in ids:
        d = os.path.join(ROOT, "seeded", sid)
        meta = json.load(open(os.path.join(d, "meta.json")))
        pid = meta.get("verif", {}).get("check") or sid.split("-")[0]
        head = sh("git -C /repo rev-parse --short HEAD")[1].strip()
        rec: dict = {"repo_head": head, "check": pid, "tier": tier, "date": time.strftime("%Y-%m-%d")}
        base = find_base(f"{d}/patch.diff")
        if base is None:
            rec["applies"] = False
            rec["note"] = "patch applies to none of the last 60 commits of /repo"
        else:
            reset(base)
            rec["applied_to"] = base[:7] + ("" if base.startswith(head) else " (an earlier commit: later fix commits rewrote the lines it touches)")
            rc0, _ = sh(f"timeout 120 {PY} {d}/demo.py", cwd="/tmp", env={"PYTHONPATH": WT})
            rec["demo_exit_unchanged"] = rc0
            baseline: list = []
            if not base.startswith(head):
                # an older tree may still have defects that were repaired later: only buckets that the
                # unpatched base does not produce count as catching the seeded change
                _, baseline, _ = run_check(pid, tier)
                rec["buckets_of_unpatched_base"] = baseline[:6]
            sh(f"git -C {WT} apply {d}/patch.diff")
            rec["applies"] = True
            rc_t, out_t = sh(f"timeout 900 {PY} -m pytest -q -p no:cacheprovider --continue-on-collection-errors 2>&1 | tail -1", cwd=WT)
            sh(f"rm -rf {WT}/.hypothesis/examples {WT}/.hypothesis/constants")
            rec["repo_tests_with_change"] = out_t.strip()
            rc1, _ = sh(f"timeout 120 {PY} {d}/demo.py", cwd="/tmp", env={"PYTHONPATH": WT})
            rec["demo_exit_with_change"] = rc1
            caught, buckets, summary = run_check(pid, tier)
            buckets = [b for b in buckets if b not in baseline]
            rec.update(caught=caught and bool(buckets), buckets=buckets[:6], check_summary=summary)
            rec["ran"] = f"git apply patch.diff in a scratch worktree of /repo@{base[:7]}; pytest; demo.py; PYTHONPATH=<worktree>:. python -m vf.run {pid} {tier} (VERIF_SEED=1); git checkout -- ."
        reset()
        meta["breaks_property"] = meta.get("property", pid)
        meta["verif"] = rec
        json.dump(meta, open(os.path.join(d, "meta.json"), "w"), indent=1)
        rows.append((sid, meta, rec))
        print(sid, "caught" if rec.get("caught") else "MISSED" if rec.get("applies") else "n/a", rec.get("buckets", [])[:2], rec.get("repo_tests_with_change", ""), flush=True)
    # matrix over everything on disk
    lines = [
        "# Seeded changes and the checks that catch them", "",
        "Each row is a change to jg-rp/liquid written by a sub-agent that saw only the property text and a scratch",
        "worktree (nothing from /verif). `tools/seed_matrix.py` applies it to a scratch worktree of the current /repo HEAD,",
        "runs the repository's tests, the agent's demo and the property's check, then undoes it. Nothing here is ever",
        "committed to /repo.", "",
        "| id | breaks | what it needs | repo tests with change | demo (unchanged / changed) | check, tier | caught | first buckets |",
        "|----|--------|---------------|------------------------|----------------------------|-------------|--------|---------------|",
    ]
    for sid in sorted(d for d in os.listdir(os.path.join(ROOT, "seeded")) if os.path.isdir(os.path.join(ROOT, "seeded", d))):
        meta = json.load(open(os.path.join(ROOT, "seeded", sid, "meta.json")))
        rec = meta.get("verif", {})
        needs = str(meta.get("needs", "")).replace("|", "/").replace("\n", " ")[:160]
        lines.append(
            f"| {sid} | {meta.get('breaks_property', meta.get('property'))} | {needs} | {rec.get('repo_tests_with_change', '-')} | "
            f"{rec.get('demo_exit_unchanged', '-')} / {rec.get('demo_exit_with_change', '-')} | {rec.get('check', '-')} {rec.get('tier', '')} | "
            f"{'yes' if rec.get('caught') else ('no' if rec.get('applies') else 'n/a (does not apply)')} | {'; '.join(rec.get('buckets', [])[:2]).replace('|', '/')} |"
        )
    open(os.path.join(ROOT, "seeded", "MATRIX.md"), "w").write("\n".join(lines) + "\n")


if __name__ == "__main__":
    main()
