#!/bin/bash
# usage: tools/try_seed.sh <seed-id> [check-id] [VERIF_SEED...]  -- apply seeded/<id>/patch.diff to a scratch worktree of /repo HEAD
# (/tmp/wt_mut2), run the property's quick check against it at the given seeds (default 1), undo.  Developer tool.
S=$1; C=${2:-${S%%-*}}; shift; shift; SEEDS=${@:-1}; W=/tmp/wt_mut2
cd /verif
[ -d $W ] || git -C /repo worktree add -q --detach $W HEAD
git -C $W reset -q --hard; git -C $W checkout -q --detach $(git -C /repo rev-parse HEAD); git -C $W clean -fdq
git -C $W apply /verif/seeded/$S/patch.diff || { echo "patch does not apply"; exit 2; }
for sd in $SEEDS; do
  PYTHONPATH=$W:. PYTHONHASHSEED=0 PYTHONDONTWRITEBYTECODE=1 VERIF_SEED=$sd /venv/bin/python -m vf.run $C quick 2>&1 | grep -E "bucket=|seed=" | head -6
done
git -C $W reset -q --hard; git checkout -q -- ':(glob)evidence/*.json'
