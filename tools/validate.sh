#!/bin/sh
# Validate MANIFEST.json and every evidence file against the schemas.
python3-vt - <<'PY'
import json, jsonschema, glob
m=json.load(open('MANIFEST.json')); s=json.load(open('/root/.vp/MANIFEST.schema.json'))
jsonschema.validate(m,s); print('manifest ok', len(m['checks']), 'checks')
s=json.load(open('/root/.vp/EVIDENCE.schema.json'))
for f in sorted(glob.glob('evidence/*.json')):
    jsonschema.validate(json.load(open(f)),s)
print('evidence ok', len(glob.glob('evidence/*.json')))
PY
