import warnings as _w

# WARN-mode renders emit LiquidWarnings by design; checks that care capture them
# locally with warnings.catch_warnings(record=True).
_w.simplefilter("ignore")
