"""Shared machinery: case bookkeeping, bucketing, minimisation, known findings,
evidence and violation reporting.

A *case* is a JSON-serialisable value.  A property module provides

    evaluate(case) -> Verdict          (pure function of the case and of /repo)
    campaign(ctx, tier)                (generates cases and calls ctx.run(case))

``ctx.run`` never raises on an oracle failure; it records the failure under a
bucket key so the whole budget is spent and every root cause is enumerated.
"""

from __future__ import annotations

import hashlib
import json
import os
import sys
import time
import traceback
from collections import Counter
from dataclasses import dataclass
from dataclasses import field
from pathlib import Path
from typing import Any
from typing import Callable
from typing import Iterable
from typing import Optional

ROOT = Path(__file__).resolve().parent.parent
EVIDENCE_DIR = ROOT / "evidence"
REPLAY_DIR = ROOT / "replays"
CORPUS_DIR = ROOT / "corpus"
KNOWN_FILE = ROOT / "known_findings.json"


def verif_seed() -> int:
    try:
        return int(os.environ.get("VERIF_SEED", "1"))
    except ValueError:
        return 1


class HarnessError(Exception):
    """A defect in the harness itself: exit 2, never a VIOLATION."""


@dataclass
class Verdict:
    """What evaluating one case produced."""

    failures: list = field(default_factory=list)  # [(bucket:str, detail:str)]
    nontrivial: bool = False
    labels: list = field(default_factory=list)
    info: Any = None  # free-form, shown in samples
    key: Any = None  # distinctness key for the non-trivial count (default: the case)

    def fail(self, bucket: str, detail: str = "") -> None:
        self.failures.append((bucket, detail))


def canon(case: Any) -> str:
    return json.dumps(case, sort_keys=True, ensure_ascii=True, default=repr)


def case_hash(case: Any) -> str:
    return hashlib.sha1(canon(case).encode()).hexdigest()[:16]


class CaseBudget(BaseException):
    """Raised by the CPU-time watchdog around one evaluation."""


def _with_cpu_cap(fn: Callable[[Any], Any], case: Any) -> Any:
    import signal
    import threading

    cap = float(os.environ.get("VERIF_CASE_CPU_S", "300"))
    if cap <= 0 or threading.current_thread() is not threading.main_thread():
        return fn(case)

    def on_alarm(signum: int, frame: Any) -> None:  # noqa: ARG001
        raise CaseBudget()

    old = signal.signal(signal.SIGVTALRM, on_alarm)
    signal.setitimer(signal.ITIMER_VIRTUAL, cap)
    try:
        return fn(case)
    finally:
        signal.setitimer(signal.ITIMER_VIRTUAL, 0)
        signal.signal(signal.SIGVTALRM, old)


class Ctx:
    """Per-process accumulation of what a campaign explored and found."""

    def __init__(self, pid: str, tier: str, seed: int, evaluate: Callable[[Any], Verdict]):
        self.pid = pid
        self.tier = tier
        self.seed = seed
        self.evaluate = evaluate
        self.evaluations = 0
        self.nontrivial: set[str] = set()
        self.classes: Counter = Counter()
        self.samples: list = []
        self.sample_labels: set[str] = set()
        self.failures: dict[str, list] = {}  # bucket -> [(case, detail)] (first few)
        self.failure_counts: Counter = Counter()
        self.extra: dict[str, Any] = {}
        # non-trivial cases that are distinct by construction (exhaustive
        # enumerations): counted instead of hashed.
        self.bulk_nontrivial = 0
        self.max_samples = 6
        self.subkey: Optional[Callable[[Any, str], str]] = None

    # -- running ---------------------------------------------------------
    def run(self, case: Any, enumerated: bool = False) -> Verdict:
        """Evaluate and record. ``enumerated``: the caller enumerates distinct
        cases, so a non-trivial one is counted instead of hashed."""
        try:
            v = _with_cpu_cap(self.evaluate, case)
        except CaseBudget:
            # a single case used more CPU than any legitimate case comes near (VERIF_CASE_CPU_S, default 300 s):
            # a resource budget, so inconclusive - never a violation (termination itself is C09's business,
            # which has its own deterministic step budget)
            v = Verdict()
            v.labels.append("inconclusive:case-cpu-cap")
        except MemoryError:
            # the shard's memory cap was hit inside the harness itself (the library contains a MemoryError of its
            # own): a resource budget, so inconclusive - never a violation, never a harness error
            import gc

            gc.collect()
            v = Verdict()
            v.labels.append("inconclusive:memory-cap")
        self.record(case, v, enumerated)
        return v

    def record(self, case: Any, v: Verdict, enumerated: bool = False) -> None:
        self.evaluations += 1
        for lab in v.labels:
            self.classes[lab] += 1
        if v.nontrivial and enumerated and v.key is None:
            self.bulk_nontrivial += 1
            if len(self.samples) < self.max_samples and self.bulk_nontrivial % 97 == 1:
                self.samples.append(_trim(case))
        elif v.nontrivial:
            h = case_hash(case if v.key is None else v.key)
            if h not in self.nontrivial:
                self.nontrivial.add(h)
                new_label = [lab for lab in v.labels if lab not in self.sample_labels]
                if len(self.samples) < self.max_samples or (
                    new_label and len(self.samples) < 4 * self.max_samples
                ):
                    self.samples.append(_trim(case))
                    self.sample_labels.update(v.labels)
        for bucket, detail in v.failures:
            self.failure_counts[bucket] += 1
            lst = self.failures.setdefault(bucket, [])
            # keep a few cases per (bucket, sub-key): the sub-key (e.g. which
            # known-finding predicates the case satisfies) keeps a new root cause
            # from being crowded out of a bucket dominated by a known one
            sk = self.subkey(case, bucket) if self.subkey else ""
            n_same = sum(1 for c, d, k in lst if k == sk)
            if n_same < 3 and len(lst) < 24:
                lst.append((case, detail, sk))

    def count(self, n: int = 1) -> None:
        """Count evaluations performed outside ``run`` (e.g. fuzz executions)."""
        self.evaluations += n

    # -- merging shards --------------------------------------------------
    def export(self) -> dict:
        return {
            "evaluations": self.evaluations,
            "nontrivial": sorted(self.nontrivial),
            "classes": dict(self.classes),
            "samples": self.samples,
            "failures": {k: v for k, v in self.failures.items()},
            "failure_counts": dict(self.failure_counts),
            "extra": self.extra,
            "bulk_nontrivial": self.bulk_nontrivial,
        }

    def merge(self, other: dict) -> None:
        self.evaluations += other["evaluations"]
        self.nontrivial.update(other["nontrivial"])
        self.classes.update(other["classes"])
        for s in other["samples"]:
            if len(self.samples) < 4 * self.max_samples:
                self.samples.append(s)
        for b, lst in other["failures"].items():
            mine = self.failures.setdefault(b, [])
            for item in lst:
                item = tuple(item)
                n_same = sum(1 for c, d, k in mine if k == item[2])
                if n_same < 3 and len(mine) < 24:
                    mine.append(item)
        self.failure_counts.update(other["failure_counts"])
        self.bulk_nontrivial += other.get("bulk_nontrivial", 0)
        for k, v in other.get("extra", {}).items():
            if isinstance(v, (int, float)) and isinstance(self.extra.get(k, 0), (int, float)):
                self.extra[k] = self.extra.get(k, 0) + v
            elif isinstance(v, dict):
                d = self.extra.setdefault(k, {})
                for kk, vv in v.items():
                    if isinstance(vv, (int, float)):
                        d[kk] = d.get(kk, 0) + vv
                    else:
                        d.setdefault(kk, vv)
            else:
                self.extra.setdefault(k, v)


def _trim(case: Any, limit: int = 1500) -> Any:
    s = canon(case)
    if len(s) <= limit:
        return case
    return {"truncated_case": s[:limit] + "..."}


# ---------------------------------------------------------------------------
# Generic JSON minimiser


PROTECTED_KEYS = {"k", "$", "kind", "cls", "op", "mode", "loader", "undefined"}


def _candidates(x: Any) -> Iterable[Any]:
    """Smaller variants of a JSON value, most aggressive first."""
    if isinstance(x, list):
        n = len(x)
        # ["op", arg...] encodings: the leading string is a discriminator and stays
        tagged = n >= 2 and isinstance(x[0], str)
        if n:
            if not tagged:
                yield []
                if n > 3:
                    half = n // 2
                    yield x[:half]
                    yield x[half:]
            for i in range(1 if tagged else 0, n):
                yield x[:i] + x[i + 1 :]
            # hoist: replace an element by the contents of one of its list fields
            for i, el in enumerate(x):
                if isinstance(el, dict):
                    for v in el.values():
                        if isinstance(v, list) and v and all(isinstance(e, dict) for e in v):
                            yield x[:i] + v + x[i + 1 :]
            for i, el in enumerate(x):
                if tagged and i == 0:
                    continue
                for c in _candidates(el):
                    yield x[:i] + [c] + x[i + 1 :]
    elif isinstance(x, dict):
        for k in list(x):
            v = x[k]
            if k in PROTECTED_KEYS:  # node/tag discriminators stay
                continue
            if v is None:
                continue
            if isinstance(v, (list, dict, str, int, float)) and not isinstance(v, bool):
                for c in _candidates(v):
                    d = dict(x)
                    d[k] = c
                    yield d
            if k.startswith("?"):  # optional field
                d = dict(x)
                d[k] = None
                yield d
    elif isinstance(x, str):
        if x:
            yield ""
            if len(x) > 1:
                yield x[: len(x) // 2]
                yield x[len(x) // 2 :]
                if len(x) <= 24:
                    for i in range(len(x)):
                        yield x[:i] + x[i + 1 :]
    elif isinstance(x, bool):
        if x:
            yield False
    elif isinstance(x, int):
        if x:
            yield 0
            if abs(x) > 1:
                yield x // 2
                yield x - 1 if x > 0 else x + 1
    elif isinstance(x, float):
        if x:
            yield 0.0


def minimise(case: Any, still_fails: Callable[[Any], bool], budget: int) -> Any:
    """Greedy structural reduction keeping ``still_fails`` true."""
    best = case
    best_size = len(canon(best))
    spent = 0
    improved = True
    while improved and spent < budget:
        improved = False
        for cand in _candidates(best):
            if spent >= budget:
                break
            size = len(canon(cand))
            if size >= best_size:
                continue
            spent += 1
            try:
                ok = still_fails(cand)
            except Exception:  # noqa: BLE001 - an invalid reduced case is just not a candidate
                ok = False
            if ok:
                best, best_size = cand, size
                improved = True
                break
    return best


# ---------------------------------------------------------------------------
# Known findings


def load_known(pid: str) -> list[dict]:
    if not KNOWN_FILE.exists():
        return []
    data = json.loads(KNOWN_FILE.read_text())
    return [e for e in data.get("findings", []) if e.get("property") == pid]


def bucket_matches(entry: dict, bucket: str) -> bool:
    pat = entry.get("bucket", "")
    if pat.endswith("*"):
        return bucket.startswith(pat[:-1])
    return bucket == pat


# ---------------------------------------------------------------------------
# Finishing a run


def finish(
    ctx: Ctx,
    *,
    rule: str,
    level: str = "exploration",
    started: float,
    assumptions: Optional[list[str]] = None,
    exhaustive: Optional[bool] = None,
    minimise_budget: Optional[int] = None,
    case_predicates: Optional[dict[str, Callable[[Any], bool]]] = None,
) -> int:
    """Classify buckets, minimise new ones, write evidence, print the verdict."""
    pid = ctx.pid
    known = load_known(pid)
    active_known: list[dict] = []
    out_lines: list[str] = []

    # Re-execute each known repro: the finding is announced only while it fails.
    for entry in known:
        if entry.get("status") == "fixed":
            # A fixed entry suppresses nothing; its repro is a regression case.
            repro = entry.get("repro")
            if repro is not None:
                v = ctx.run(repro)
                _ = v
            continue
        repro = entry.get("repro")
        still = False
        if repro is not None:
            try:
                v = ctx.evaluate(repro)
                still = any(bucket_matches(entry, b) for b, _ in v.failures)
            except Exception as err:  # noqa: BLE001
                raise HarnessError(f"known repro {entry.get('id')} crashed: {err!r}") from err
        if still:
            active_known.append(entry)
            out_lines.append(
                f"KNOWN-FINDING: property={pid} {entry.get('id')}: {entry.get('description')}"
            )

    budget = minimise_budget if minimise_budget is not None else (300 if ctx.tier == "quick" else 1500)
    violations: list[tuple[str, Any, str]] = []
    known_hit: Counter = Counter()
    preds = case_predicates or {}

    for bucket in sorted(ctx.failures):
        entries = [e for e in active_known if bucket_matches(e, bucket)]
        cases = ctx.failures[bucket]
        if entries:
            # With a case predicate, only cases satisfying it belong to the finding.
            unexplained = []
            for case, detail, _sk in cases:
                explained = False
                for e in entries:
                    p = preds.get(e.get("id", ""))
                    if p is None or p(case):
                        explained = True
                        known_hit[e.get("id")] += 1
                        break
                if not explained:
                    unexplained.append((case, detail))
            if not unexplained:
                known_hit[entries[0].get("id")] += ctx.failure_counts[bucket] - len(cases)
                continue
            cases = unexplained
        case, detail = cases[0][0], cases[0][1]

        def still_fails(c: Any, _b: str = bucket) -> bool:
            v = ctx.evaluate(c)
            return any(b == _b for b, _ in v.failures)

        small = minimise(case, still_fails, budget)
        v = ctx.evaluate(small)
        det = next((d for b, d in v.failures if b == bucket), detail)
        violations.append((bucket, small, det))

    REPLAY_DIR.mkdir(exist_ok=True)
    for bucket, case, detail in violations:
        h = hashlib.sha1((bucket + canon(case)).encode()).hexdigest()[:10]
        path = REPLAY_DIR / f"{pid}-{h}.json"
        path.write_text(
            json.dumps(
                {"property": pid, "bucket": bucket, "detail": detail, "case": case},
                indent=1,
                default=repr,
            )
        )
        out_lines.append(f"VIOLATION property={pid} replay={path}")
        out_lines.append(f"  bucket={bucket}")
        out_lines.append(f"  detail={detail[:600]}")
        out_lines.append(f"  case={canon(case)[:800]}")

    coverage: dict[str, Any] = {
        "evaluations": ctx.evaluations,
        "distinct_nontrivial": len(ctx.nontrivial) + ctx.bulk_nontrivial,
        "distinct_nontrivial_hashed": len(ctx.nontrivial),
        "distinct_nontrivial_enumerated": ctx.bulk_nontrivial,
        "rule": rule,
        "samples": ctx.samples[:12] or ["<no non-trivial case generated>"],
        "classes": dict(sorted(ctx.classes.items())),
        "failure_buckets": dict(ctx.failure_counts),
        "known_findings_hit": dict(known_hit),
        "known_findings_active": [e.get("id") for e in active_known],
    }
    if exhaustive is not None:
        coverage["exhaustive"] = exhaustive
    coverage.update(ctx.extra)

    evidence = {
        "property_id": pid,
        "tier": ctx.tier,
        "seed": ctx.seed,
        "level": level,
        "coverage": coverage,
        "assumptions": assumptions or [],
        "wall_s": round(time.time() - started, 3),
        "violations": len(violations),
    }
    EVIDENCE_DIR.mkdir(exist_ok=True)
    (EVIDENCE_DIR / f"{pid}.json").write_text(json.dumps(evidence, indent=1, default=repr) + "\n")

    for line in out_lines:
        print(line)
    print(
        f"{pid} {ctx.tier} seed={ctx.seed}: evaluations={ctx.evaluations} "
        f"nontrivial={len(ctx.nontrivial) + ctx.bulk_nontrivial} buckets={len(ctx.failures)} "
        f"violations={len(violations)} wall={evidence['wall_s']}s"
    )
    if len(ctx.nontrivial) + ctx.bulk_nontrivial < 2:
        raise HarnessError("fewer than 2 distinct non-trivial cases: the generator is broken")
    return 1 if violations else 0


# ---------------------------------------------------------------------------
# Sharded execution


def _cap_memory() -> None:
    """Cap the address space of a shard process (default 3 GB, VERIF_SHARD_MEM_MB).

    A generated case that makes the library allocate without bound (a filter over a huge range, say) then gets a
    MemoryError - which the library contains like any other exception, or which Ctx.run labels inconclusive -
    instead of getting the whole check killed by the kernel.
    """
    import resource

    cap = int(os.environ.get("VERIF_SHARD_MEM_MB", "3000")) << 20
    try:
        _soft, hard = resource.getrlimit(resource.RLIMIT_AS)
        if hard == resource.RLIM_INFINITY or cap < hard:
            resource.setrlimit(resource.RLIMIT_AS, (cap, hard))
    except (ValueError, OSError):
        pass


def _shard_entry(args: tuple) -> dict:
    modname, tier, seed, shard, nshards = args
    import importlib

    mod = importlib.import_module(modname)
    ctx = Ctx(mod.PID, tier, seed, mod.evaluate)
    ctx.subkey = getattr(mod, "failure_subkey", None)
    _cap_memory()
    try:
        mod.campaign(ctx, tier, shard, nshards)
    except Exception:  # noqa: BLE001
        return {"error": traceback.format_exc()}
    return ctx.export()


def run_sharded(mod: Any, ctx: Ctx, tier: str, nshards: int) -> None:
    """Run ``mod.campaign`` in ``nshards`` processes and merge into ``ctx``."""
    if nshards <= 1:
        mod.campaign(ctx, tier, 0, 1)
        return
    import multiprocessing as mp
    from concurrent.futures import ProcessPoolExecutor

    # executor workers are not daemonic, so a shard may start its own helper
    # processes (the zygote of vf.isolate)
    with ProcessPoolExecutor(max_workers=nshards, mp_context=mp.get_context("fork")) as pool:
        results = list(
            pool.map(_shard_entry, [(mod.__name__, tier, ctx.seed, s, nshards) for s in range(nshards)], chunksize=1)
        )
    for r in results:
        if "error" in r:
            raise HarnessError("shard failed:\n" + r["error"])
        ctx.merge(r)


def hyp_settings(max_examples: int, **kw: Any):
    from hypothesis import HealthCheck
    from hypothesis import Phase
    from hypothesis import settings

    return settings(
        max_examples=max_examples,
        database=None,
        deadline=None,
        derandomize=False,
        report_multiple_bugs=False,
        phases=[Phase.generate],
        suppress_health_check=[
            HealthCheck.too_slow,
            HealthCheck.data_too_large,
            HealthCheck.large_base_example,
            HealthCheck.filter_too_much,
        ],
        **kw,
    )


def drive(strategy: Any, fn: Callable[[Any], None], *, n: int, seed: int) -> None:
    """Run ``fn`` on ``n`` examples of ``strategy`` (pure function of ``seed``)."""
    import hypothesis
    from hypothesis import given

    @hypothesis.seed(seed)
    @hyp_settings(n)
    @given(strategy)
    def _t(case: Any) -> None:
        fn(case)

    _t()


def rng(draw: Any) -> Any:
    """Source of the structural choices of one generated case.

    Half of the cases use Hypothesis's own Random (whose draws are deliberately
    biased towards small/simple values: measured P(random() < 0.1) = 0.34), the
    other half a random.Random seeded with a Hypothesis-drawn 64-bit integer, which
    gives the branch probabilities written in the generators.  Both are pure
    functions of the Hypothesis seed, i.e. of VERIF_SEED.
    """
    import random as _random

    from hypothesis import strategies as st

    if draw(st.booleans()):
        return draw(st.randoms(use_true_random=False))
    return _random.Random(draw(st.integers(min_value=0, max_value=2**64 - 1)))


def sub_seed(seed: int, shard: int, salt: int = 0) -> int:
    return seed * 1000 + shard * 17 + salt


def eprint(*a: Any) -> None:
    print(*a, file=sys.stderr)
