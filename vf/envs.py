"""Build liquid Environments (and loaders) from a JSON configuration."""

from __future__ import annotations

import os
import shutil
import tempfile
from typing import Any
from typing import Optional

FLAG_NAMES = [
    "suppress_blank_control_flow_blocks",
    "string_sequences",
    "string_first_and_last",
    "logical_not_operator",
    "logical_parentheses",
    "ternary_expressions",
    "shorthand_indexes",
    "keyword_assignment",
]
LIMIT_NAMES = [
    "loop_iteration_limit",
    "output_stream_limit",
    "local_namespace_limit",
    "context_depth_limit",
    "block_nesting_limit",
]


def mode_of(name: str):
    from liquid import Mode

    return {"strict": Mode.STRICT, "warn": Mode.WARN, "lax": Mode.LAX}[name]


def undefined_of(name: str):
    from liquid import undefined as u

    return {
        "default": u.Undefined,
        "strict": u.StrictUndefined,
        "falsy": u.FalsyStrictUndefined,
        "strictdefault": u.StrictDefaultUndefined,
        "debug": u.DebugUndefined,
    }[name]


class TwiceFilter:
    """A custom filter with separately written sync and async entry points."""

    def __call__(self, val: object, *args: object) -> str:
        return f"{val}{val}" if not args else f"{val}{args[0]}{val}"

    async def filter_async(self, val: object, *args: object) -> str:
        return self(val, *args)


class Scratch:
    """A temporary directory removed on close()."""

    def __init__(self) -> None:
        self.path = tempfile.mkdtemp(prefix="vf-")

    def write(self, rel: str, text: str) -> str:
        full = os.path.join(self.path, rel)
        os.makedirs(os.path.dirname(full), exist_ok=True)
        with open(full, "w", encoding="utf-8") as fd:
            fd.write(text)
        return full

    def close(self) -> None:
        shutil.rmtree(self.path, ignore_errors=True)

    def __enter__(self) -> "Scratch":
        return self

    def __exit__(self, *a: Any) -> None:
        self.close()


def make_loader(cfg: dict, partials: dict, scratch: Optional[Scratch]):
    from liquid import CachingChoiceLoader
    from liquid import CachingDictLoader
    from liquid import CachingFileSystemLoader
    from liquid import ChoiceLoader
    from liquid import DictLoader
    from liquid import FileSystemLoader

    kind = cfg.get("loader", "dict")
    ns = "ns" if cfg.get("ns") else ""
    cap = cfg.get("cap", 300)
    auto = cfg.get("auto_reload", True)
    names = sorted(partials)
    if kind == "dict":
        return DictLoader(dict(partials))
    if kind == "cdict":
        return CachingDictLoader(dict(partials), namespace_key=ns, capacity=cap, auto_reload=auto)
    if kind in ("choice", "cchoice"):
        a = {n: partials[n] for n in names[::2]}
        b = {n: partials[n] for n in names[1::2]}
        # the second loader also has shadowed copies of the first loader's names
        b.update({n: "SHADOWED" for n in a})
        loaders = [DictLoader(a), DictLoader(b)]
        if kind == "choice":
            return ChoiceLoader(loaders)
        return CachingChoiceLoader(loaders, namespace_key=ns, capacity=cap, auto_reload=auto)
    if kind in ("fs", "cfs"):
        assert scratch is not None
        for n, src in partials.items():
            scratch.write(n, src)
        if kind == "fs":
            return FileSystemLoader(scratch.path)
        return CachingFileSystemLoader(scratch.path, namespace_key=ns, capacity=cap, auto_reload=auto)
    raise ValueError(f"unknown loader kind {kind}")


def make_env(cfg: dict, partials: Optional[dict] = None, scratch: Optional[Scratch] = None, loader: Any = None):
    from liquid import Environment

    attrs: dict[str, Any] = {}
    for k, v in (cfg.get("flags") or {}).items():
        if k in FLAG_NAMES:
            attrs[k] = v
    for k, v in (cfg.get("limits") or {}).items():
        if k in LIMIT_NAMES:
            attrs[k] = v
    cls = type("VfEnvironment", (Environment,), attrs) if attrs else Environment
    if loader is None and partials is not None:
        loader = make_loader(cfg, partials, scratch)
    kw: dict[str, Any] = {}
    if cfg.get("delims"):
        d = cfg["delims"]
        kw.update(
            tag_start_string=d[0],
            tag_end_string=d[1],
            statement_start_string=d[2],
            statement_end_string=d[3],
        )
        if len(d) > 4:
            kw.update(template_comments=True, comment_start_string=d[4], comment_end_string=d[5])
    elif cfg.get("template_comments"):
        kw.update(template_comments=True)
    env = cls(
        extra=bool(cfg.get("extra")),
        tolerance=mode_of(cfg.get("mode", "strict")),
        undefined=undefined_of(cfg.get("undefined", "default")),
        strict_filters=cfg.get("strict_filters", True),
        autoescape=bool(cfg.get("autoescape")),
        globals=cfg.get("globals") or None,
        loader=loader,
        **kw,
    )
    if cfg.get("twice", True):
        env.add_filter("twice", TwiceFilter())
    return env


def needs_scratch(cfg: dict) -> bool:
    return cfg.get("loader") in ("fs", "cfs")


def gen_cfg(r: Any, *, modes=("strict", "warn", "lax"), loaders=("dict",), extra=None, flags=True) -> dict:
    def pick(seq):
        return seq[r.randrange(len(seq))]

    cfg: dict[str, Any] = {
        "mode": pick(list(modes)),
        "undefined": pick(["default", "default", "default", "strict", "falsy", "strictdefault"]),
        "autoescape": r.random() < 0.25,
        "strict_filters": r.random() < 0.8,
        "extra": (r.random() < 0.5) if extra is None else extra,
        "loader": pick(list(loaders)),
        "ns": r.random() < 0.4,
        "flags": {},
    }
    if flags:
        for name in FLAG_NAMES[:6]:
            if r.random() < 0.35:
                cfg["flags"][name] = r.random() < 0.5 if name == "suppress_blank_control_flow_blocks" else True
    return cfg
