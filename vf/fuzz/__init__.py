"""Coverage-guided fuzzing stage (atheris/libFuzzer) for the "any source text" clauses.

Used by the thorough tiers of C02, C03, C09, C20 and C21.  The fuzzer's bytes
are decoded into a Liquid source through a lexeme dictionary (one byte = one
lexeme or one raw character), so byte-level mutations are token-level edits and
the fuzzer reaches the tag parsers instead of dying in the lexer.  The
property's own ``evaluate`` is the oracle inside the target; failing cases are
saved (never crash the fuzzer, so the campaign runs its full budget) and handed
back to the normal collect-bucket-minimise pipeline.
"""

from __future__ import annotations

import json
import os
import shutil
import subprocess
import sys
import tempfile
from typing import Any

from ..gen import mutate as gm

ROOT = os.path.dirname(os.path.dirname(os.path.dirname(os.path.abspath(__file__))))
DEPS = os.path.join(ROOT, ".deps")

_names = [n for n in gm.TAG_NAMES if n]
DICT: list = (
    ["{% ", " %}", "{{ ", " }}", "{%- ", " -%}", "{{- ", " -}}", "{# ", " #}", "\n", " ", "{% end", "{% liquid\n", "\n%}"]
    + [f"{{% {n} " for n in _names[:40]]
    + _names
    + [f" {x} " for x in gm.EXPR_LEXEMES]
    + gm.TEXT_LEXEMES
)
DICT = DICT[:220]  # bytes >= len(DICT) stand for themselves (one raw character)

RULE_NOTE = (
    " Thorough tier only: one atheris/libFuzzer campaign per shard (fixed -runs and -seed, six small valid inputs as "
    "starting corpus) whose bytes are decoded through a 220-entry Liquid lexeme dictionary (other bytes are raw "
    "characters) into a source of at most 400 pieces and judged by this check's own oracle inside the target; failing "
    "inputs are saved and re-evaluated, bucketed and minimised like any generated case. Fuzz executions are counted "
    "in evaluations (classes fuzz:*)."
)
ASSUMPTION = "libFuzzer's -seed pins a campaign only approximately; the saved failing input is the reproducible unit"

BASE_CFG = {
    "undefined": "default", "autoescape": False, "strict_filters": True, "extra": True, "loader": "dict", "ns": False,
    "flags": {"ternary_expressions": True, "logical_not_operator": True, "logical_parentheses": True},
}


def decode(data: bytes) -> str:
    out = []
    n = len(DICT)
    for b in data[:400]:
        out.append(DICT[b] if b < n else chr(b))
    return "".join(out)


def encode(pieces: list) -> bytes:
    """Inverse of decode for dictionary pieces (used for the starting corpus)."""
    return bytes(DICT.index(p) for p in pieces if p in DICT)


def make_case(pid: str, src: str, sel: int) -> Any:
    mode = ("strict", "lax", "warn")[sel % 3]
    if pid == "C02":
        return {"kind": "src", "src": src, "mode": mode, "data": {"a": {"a": 1, "b": {"b": 2}}, "b": False, "items": [1, "x"], "x": "s"}}
    if pid == "C03":
        return {"cfg": BASE_CFG, "src": src, "data": {"items": [1, 2], "a": "x"}, "mutations": ["fuzz"]}
    if pid == "C09":
        return {"kind": "parse", "src": src, "mode": "strict" if sel % 2 else "lax"}
    if pid == "C20":
        return {"kind": "error", "src": src}
    if pid == "C21":
        return {"src": src, "extra": bool(sel % 2)}
    raise ValueError(pid)


SEEDS = [
    ["{% if ", " a ", " %}", "a", "{% else ", " %}", "{% endif ", " %}"],
    ["{{ ", " a ", " | ", " upcase ", " }}"],
    ["{% for ", " x ", " in ", " items ", " %}", "{{ ", " x ", " }}", "{% endfor ", " %}"],
    ["{% liquid\n", "assign", " a ", " = ", " 1 ", "\n", "echo", " a ", "\n%}"],
    ["{% case ", " a ", " %}", "{% when ", " 1 ", " %}", "a", "{% endcase ", " %}"],
    ["{% raw ", " %}", "{{ ", "{% endraw ", " %}"],
]


def available() -> bool:
    env = dict(os.environ, PYTHONPATH=os.pathsep.join([DEPS, os.environ.get("PYTHONPATH", "")]))
    return subprocess.run([sys.executable, "-c", "import atheris"], env=env, capture_output=True).returncode == 0


def campaign(ctx: Any, pid: str, runs: int, seed: int) -> None:
    """Run one libFuzzer campaign in a child process and feed what it found back into ``ctx``."""
    if not available():
        ctx.classes["fuzz:atheris-unavailable"] += 1
        return
    work = tempfile.mkdtemp(prefix=f"vf-fuzz-{pid}-")
    try:
        corpus, out = os.path.join(work, "corpus"), os.path.join(work, "out")
        os.makedirs(corpus)
        os.makedirs(out)
        for i, pieces in enumerate(SEEDS):
            with open(os.path.join(corpus, f"seed{i}"), "wb") as fd:
                fd.write(encode(pieces))
        env = dict(os.environ, PYTHONPATH=os.pathsep.join([DEPS, ROOT, os.environ.get("PYTHONPATH", "")]), PYTHONHASHSEED="0")
        cmd = [
            sys.executable, "-m", "vf.fuzz.target", pid, out, corpus,
            f"-runs={runs}", f"-seed={seed % (2**31 - 1) or 1}", "-max_len=400", "-timeout=120", "-rss_limit_mb=2500", "-verbosity=0", "-print_final_stats=1",
            f"-artifact_prefix={work}/",  # slow-unit-*/crash-* files stay in the scratch directory, not in /verif
        ]
        def _uncap() -> None:  # libFuzzer reserves address space freely; its own -rss_limit_mb bounds real memory
            import resource

            _soft, hard = resource.getrlimit(resource.RLIMIT_AS)
            resource.setrlimit(resource.RLIMIT_AS, (hard, hard))

        p = subprocess.run(cmd, cwd=ROOT, env=env, capture_output=True, text=True, timeout=max(1800, runs // 20), preexec_fn=_uncap)
        if p.returncode != 0:
            ctx.classes["fuzz:campaign-aborted"] += 1
        stats_path = os.path.join(out, "stats.json")
        if not os.path.exists(stats_path):
            from ..core import HarnessError

            raise HarnessError(f"fuzz target produced no statistics (exit {p.returncode}):\n{p.stderr[-2000:]}")
        stats = json.load(open(stats_path))
        ctx.count(stats["execs"])
        ctx.nontrivial.update(stats["nontrivial"])
        ctx.classes["fuzz:execs"] += stats["execs"]
        ctx.classes["fuzz:failing-inputs"] += stats["failing"]
        for lab, n in stats.get("labels", {}).items():
            ctx.classes["fuzz:" + lab] += n
        if stats.get("sample") is not None and len(ctx.samples) < 4 * ctx.max_samples:
            ctx.samples.append({"fuzz_input_decoded": stats["sample"]})
        # failing inputs go through the ordinary pipeline (recorded, bucketed, minimised, replay file)
        for name in sorted(os.listdir(out)):
            if name.startswith("fail-"):
                ctx.run(json.load(open(os.path.join(out, name))))
    finally:
        shutil.rmtree(work, ignore_errors=True)
