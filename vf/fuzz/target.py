"""atheris entry point: python -m vf.fuzz.target <pid> <outdir> <corpus> [libFuzzer flags]."""

from __future__ import annotations

import hashlib
import importlib
import json
import os
import sys
import warnings

warnings.simplefilter("ignore")

import atheris  # noqa: E402

with atheris.instrument_imports(include=["liquid"]):
    import liquid  # noqa: F401

from vf import fuzz  # noqa: E402

MODS = {
    "C02": "vf.props.c02_only_liquid_errors", "C03": "vf.props.c03_tolerance_modes", "C09": "vf.props.c09_termination",
    "C20": "vf.props.c20_locations", "C21": "vf.props.c21_tag_analysis",
}
STATE: dict = {"execs": 0, "failing": 0, "nontrivial": set(), "labels": {}, "buckets": {}, "sample": None}


def flush() -> None:
    tmp = os.path.join(STATE["out"], "stats.json.tmp")
    with open(tmp, "w") as fd:
        json.dump(
            {"execs": STATE["execs"], "failing": STATE["failing"], "nontrivial": sorted(STATE["nontrivial"])[:200000],
             "labels": STATE["labels"], "sample": STATE["sample"]}, fd,
        )
    os.replace(tmp, os.path.join(STATE["out"], "stats.json"))


def one_input(data: bytes) -> None:
    src = fuzz.decode(data)
    case = fuzz.make_case(STATE["pid"], src, len(data))
    v = STATE["evaluate"](case)
    STATE["execs"] += 1
    if v.nontrivial:
        STATE["nontrivial"].add(hashlib.sha1(json.dumps(case, sort_keys=True, default=repr).encode()).hexdigest()[:16])
        if STATE["sample"] is None and len(src) > 20:
            STATE["sample"] = src[:300]
    for lab in v.labels[:3]:
        STATE["labels"][lab] = STATE["labels"].get(lab, 0) + 1
    for bucket, _detail in v.failures:
        STATE["failing"] += 1
        n = STATE["buckets"].get(bucket, 0)
        STATE["buckets"][bucket] = n + 1
        if n < 3:
            h = hashlib.sha1((bucket + src).encode()).hexdigest()[:12]
            with open(os.path.join(STATE["out"], f"fail-{h}.json"), "w") as fd:
                json.dump(case, fd)
    if STATE["execs"] % 500 == 0:
        flush()


def main() -> None:
    pid, out = sys.argv[1], sys.argv[2]
    STATE.update(pid=pid, out=out, evaluate=importlib.import_module(MODS[pid]).evaluate)
    flush()
    argv = [sys.argv[0], *sys.argv[3:]]
    atheris.Setup(argv, one_input)
    import atexit

    atexit.register(flush)
    try:
        atheris.Fuzz()
    finally:
        flush()


if __name__ == "__main__":
    main()
