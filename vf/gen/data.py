"""JSON-like render data: generator (from a Hypothesis-controlled Random),
tagged encoding of non-JSON values, and decoding to Python objects."""

from __future__ import annotations

import datetime
import decimal
from typing import Any

from .grammar import KEYS
from .grammar import NAMES

SCALARS_PLAIN = [None, True, False, 0, 1, 2, -1, 3, 10, 1.5, -2.25, 0.0, "", " ", "a", "b", "ab", "a b", "1", "2", "1.5", "x,y", "Hello World"]
STRINGS_NUMERIC = ["0", "1", "-3", "2.5", "1e3", " 4 ", "007", "1_000", "٣"]
STRINGS_HOSTILE = [
    "%", "100% sure", "%s", "%(a)s", "%%", "nan", "inf", "-inf", "1e999", "NaN", "Infinity",
    "<b>", "&amp;", "'\"", "a\nb", "\t", "é", "漢字", "😀", "\x00", " ", "%3C", "%zz", "%E9",
    "PGI+", "=====", "YWJj", "/w==", "4pyT", "gICA", "a" * 40, "{{ x }}", "{% if %}", "continue", "true", "nil",
]


def tagged(kind: str, **kw: Any) -> dict:
    d = {"$": kind}
    d.update(kw)
    return d


SPECIAL_HOSTILE = [
    tagged("float", v="inf"), tagged("float", v="-inf"), tagged("float", v="nan"), tagged("float", v="-0.0"),
    tagged("float", v="1e308"), tagged("pow10", n=30), tagged("pow10", n=4400), tagged("pow10", n=-4400),
    2**63, -(2**63) - 1, 2**31, tagged("range", a=1, b=3), tagged("range", a=0, b=-1), tagged("range", a=1, b=2000),
]


class DataGen:
    def __init__(self, r: Any, *, hostile: bool = False, names=None, keys=None, strings=None, specials=None, depth: int = 3):
        self.r = r
        self.hostile = hostile
        self.names = names or NAMES
        self.keys = keys or KEYS
        self.strings = strings
        self.specials = specials
        self.depth = depth

    def pick(self, seq):
        return seq[self.r.randrange(len(seq))]

    def scalar(self) -> Any:
        c = self.r.random()
        if self.strings is not None and c < 0.5:
            return self.pick(self.strings)
        if self.hostile:
            if c < 0.3:
                return self.pick(STRINGS_HOSTILE)
            if c < 0.45:
                return self.pick(SPECIAL_HOSTILE)
            if c < 0.55:
                return self.pick(STRINGS_NUMERIC)
        elif c < 0.08:
            return self.pick(STRINGS_NUMERIC)
        if self.specials is not None and c > 0.85:
            return self.pick(self.specials)
        return self.pick(SCALARS_PLAIN)

    def value(self, depth: int | None = None) -> Any:
        depth = self.depth if depth is None else depth
        c = self.r.random()
        if depth <= 0 or c < 0.45:
            return self.scalar()
        if c < 0.75:
            n = self.pick([0, 1, 2, 3, 3, 4, 6])
            if self.r.random() < 0.4:
                # homogeneous list of dicts (what map/where/sort expect)
                return [self.mapping(depth - 1) for _ in range(n)]
            return [self.value(depth - 1) for _ in range(n)]
        return self.mapping(depth - 1)

    def mapping(self, depth: int) -> dict:
        n = self.pick([0, 1, 2, 3, 4])
        ks = self.r.sample(self.keys, min(n, len(self.keys)))
        return {k: self.value(depth) for k in ks}

    def data(self) -> dict:
        n = self.r.randint(2, len(self.names))
        ks = self.r.sample(self.names, n)
        d = {k: self.value() for k in ks}
        if self.r.random() < 0.7:
            d["items"] = [self.value(1) for _ in range(self.pick([0, 1, 2, 3, 5]))]
        # a string that is a keyword where the grammar writes it bare (loop arguments read it through a variable)
        d["kw"] = self.pick(["continue", "continue", "continue", "reversed", "empty", "nil", "limit", "1"])
        return d


def decode(v: Any) -> Any:
    """Turn the tagged JSON encoding into Python render data."""
    if isinstance(v, list):
        return [decode(x) for x in v]
    if isinstance(v, dict):
        tag = v.get("$")
        if tag is None:
            return {k: decode(x) for k, x in v.items()}
        if tag == "float":
            return float(v["v"])
        if tag == "pow10":
            n = v["n"]
            return 10**n if n >= 0 else -(10 ** (-n))
        if tag == "range":
            return range(v["a"], v["b"] + 1)
        if tag == "markup":
            from markupsafe import Markup

            return Markup(v["v"])
        if tag == "html":
            return HtmlObj(v["v"])
        if tag == "decimal":
            return decimal.Decimal(v["v"])
        if tag == "datetime":
            tz = None
            if v.get("tz") is not None:
                tz = datetime.timezone(datetime.timedelta(minutes=v["tz"]))
            return datetime.datetime.fromisoformat(v["v"]).replace(tzinfo=tz)
        if tag == "date":
            return datetime.date.fromisoformat(v["v"])
        if tag == "tuple":
            return tuple(decode(x) for x in v["v"])
        raise ValueError(f"unknown tag {tag}")
    return v


class HtmlObj:
    """An object with __html__ (explicitly safe)."""

    def __init__(self, s: str):
        self.s = s

    def __html__(self) -> str:
        return self.s

    def __str__(self) -> str:
        return self.s

    def __eq__(self, other: object) -> bool:
        return isinstance(other, HtmlObj) and other.s == self.s

    def __hash__(self) -> int:
        return hash(self.s)


def type_class(v: Any) -> str:
    """Coarse type class of a decoded value (for labels)."""
    if v is None:
        return "nil"
    if isinstance(v, bool):
        return "bool"
    if isinstance(v, int):
        return "int" if abs(v) < 2**62 else "bigint"
    if isinstance(v, float):
        if v != v or v in (float("inf"), float("-inf")):
            return "nonfinite"
        return "float"
    if isinstance(v, str):
        return "str"
    if isinstance(v, (list, tuple)):
        return "list"
    if isinstance(v, dict):
        return "dict"
    if isinstance(v, range):
        return "range"
    return type(v).__name__
