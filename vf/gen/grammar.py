"""Template mini-AST (JSON), generator and deterministic ``to_source``.

All random choices come from a Hypothesis-controlled ``random.Random``
(``st.randoms(use_true_random=False)``), so a run is a pure function of the seed.

Expression nodes
    path   {"k":"path","segs":[{"s":name}|{"q":str}|{"i":int}|{"p":path}, ...]}
    str    {"k":"str","v":text,"q":"'"|'"'}      int {"k":"int","v":n}
    float  {"k":"float","v":"1.5"}               true/false/nil/empty/blank
    range  {"k":"range","a":expr,"b":expr}
    filt   {"k":"filt","left":expr,"filters":[{"name":n,"args":[arg...]}]}
           arg = expr | {"kw":name,"v":expr}
    tern   {"k":"tern","left":filt,"cond":bexpr,"?alt":expr,"altf":[flt],"tail":[flt]}
    bexpr  {"k":"and"|"or","l":b,"r":b} {"k":"not","e":b} {"k":"group","e":b}
           {"k":"cmp","op":op,"l":expr,"r":expr} | expr
"""

from __future__ import annotations

from dataclasses import dataclass
from dataclasses import field
from typing import Any
from typing import Optional

NAMES = ["a", "b", "c", "x", "y", "items", "user", "title", "n", "s"]
KEYS = ["a", "b", "name", "title", "id", "tags", "size", "first", "last", "x"]

# filter name -> list of argument kinds ("?" prefix = optional)
FILTER_ARGS: dict[str, list[str]] = {
    "abs": [], "ceil": [], "floor": [], "round": ["?int"],
    "at_most": ["num"], "at_least": ["num"], "divided_by": ["num"], "minus": ["num"],
    "plus": ["num"], "times": ["num"], "modulo": ["num"],
    "capitalize": [], "downcase": [], "upcase": [], "escape": [], "escape_once": [],
    "lstrip": [], "rstrip": [], "strip": [], "strip_html": [], "strip_newlines": [],
    "newline_to_br": [], "url_encode": [], "url_decode": [], "base64_encode": [],
    "base64_decode": [], "base64_url_safe_encode": [], "base64_url_safe_decode": [],
    "squish": [], "append": ["str"], "prepend": ["str"], "remove": ["str"],
    "remove_first": ["str"], "remove_last": ["str"], "replace": ["str", "str"],
    "replace_first": ["str", "str"], "replace_last": ["str", "str"],
    "slice": ["int", "?int"], "split": ["str"], "truncate": ["int", "?str"],
    "truncatewords": ["int", "?str"],
    "join": ["?str"], "first": [], "last": [], "concat": ["arr"], "map": ["key"],
    "reverse": [], "sort": ["?key"], "sort_natural": ["?key"], "uniq": ["?key"],
    "compact": ["?key"], "sum": ["?key"], "where": ["key", "?any"], "reject": ["key", "?any"],
    "find": ["key", "?any"], "find_index": ["key", "?any"], "has": ["key", "?any"],
    "size": [], "default": ["any"], "date": ["fmt"], "safe": [], "escapejs": [],
}
EXTRA_FILTER_ARGS: dict[str, list[str]] = {
    "index": ["any"], "json": [], "sort_numeric": ["?key"], "script_tag": [], "stylesheet_tag": [],
    "t": [], "gettext": [], "pgettext": ["str"], "ngettext": ["str", "int"],
}
STRING_FILTERS = [
    "capitalize", "downcase", "upcase", "escape", "escape_once", "lstrip", "rstrip", "strip",
    "strip_html", "strip_newlines", "url_encode", "url_decode", "base64_encode", "base64_decode",
    "squish", "append", "prepend", "remove", "remove_first", "remove_last", "replace",
    "replace_first", "replace_last", "slice", "split", "truncate", "truncatewords", "default",
]
ARRAY_FILTERS = [
    "join", "first", "last", "concat", "map", "reverse", "sort", "sort_natural", "uniq", "compact",
    "where", "reject", "find", "size", "sum",
]
MATH_FILTERS = ["abs", "ceil", "floor", "round", "at_most", "at_least", "divided_by", "minus", "plus", "times", "modulo"]

STD_NODES = [
    "text", "out", "echo", "assign", "capture", "incr", "decr", "if", "unless", "case", "for",
    "tablerow", "cycle", "ifchanged", "include", "render", "liquid", "comment", "inline_comment", "raw",
]
EXTRA_NODES = ["macro", "call", "with"]


@dataclass
class Profile:
    nodes: list = field(default_factory=lambda: list(STD_NODES))
    depth: int = 3
    width: int = 4
    names: list = field(default_factory=lambda: list(NAMES))
    keys: list = field(default_factory=lambda: list(KEYS))
    filters: list = field(default_factory=lambda: sorted(FILTER_ARGS))
    extra_filters: bool = False
    text_alphabet: list = field(default_factory=lambda: ["a", "b", " ", "\n", "x", "-", ".", "é", "a", " ", "\n", "x", "\r", "\u2028", "\x0c"])
    str_alphabet: list = field(default_factory=lambda: ["a", "b", " ", "x", "1", ",", "-"])
    partials: list = field(default_factory=list)  # names of available partial templates
    ternary: bool = False
    logical_not: bool = False
    parens: bool = False
    ws_control: bool = True
    bracket_roots: bool = False
    nested_paths: bool = True
    odd_strings: bool = False  # quotes of the other kind, backslashes, newlines
    hostile_args: bool = False  # ignore the filter argument table
    max_filters: int = 3
    ranges: bool = True
    break_continue: bool = True
    float_literals: bool = True
    special_literals: bool = True  # nil / empty / blank
    nil_literal: bool = True
    grouped_operands: bool = False  # (a or b) == c
    big_ints: bool = False
    offset_continue: bool = True
    in_partial: str = ""  # "render": generating a body that may be rendered (include is forbidden there)
    dynamic_partial_names: bool = True
    max_path_segments: int = 3
    loop_arg_commas: bool = True  # comma separated / reordered limit, offset, cols, reversed


class Gen:
    def __init__(self, r: Any, profile: Profile):
        self.r = r
        self.p = profile

    # -- helpers ---------------------------------------------------------
    def chance(self, p: float) -> bool:
        return self.r.random() < p

    def pick(self, seq):
        return seq[self.r.randrange(len(seq))]

    def text(self, alphabet, lo=0, hi=6) -> str:
        n = self.r.randint(lo, hi)
        return "".join(self.pick(alphabet) for _ in range(n))

    def name(self) -> str:
        return self.pick(self.p.names)

    # -- expressions -----------------------------------------------------
    def string(self) -> dict:
        alpha = list(self.p.str_alphabet)
        q = self.pick(["'", '"'])
        if self.p.odd_strings and self.chance(0.5):
            alpha = alpha + ["\\", "\n", "'" if q == '"' else '"', "\\n", "%", "{", "#"]
        return {"k": "str", "v": self.text(alpha, 0, 5), "q": q}

    def integer(self) -> dict:
        if self.p.big_ints and self.chance(0.1):
            return {"k": "int", "v": self.pick([2**63, -(2**63) - 1, 10**30, 1 << 64])}
        return {"k": "int", "v": self.pick([0, 1, 2, 3, -1, -2, 5, 10, 100])}

    def floatlit(self) -> dict:
        # (the second half: values whose Python repr uses an exponent or more digits than a short format keeps)
        return {"k": "float", "v": self.pick(["0.0", "1.5", "-2.25", "3.0", "0.1", "10.75", "0.0000001", "0.00001234", "-0.00005",
                                              "123456789012345678.0", "100000000000000000000.0", "0.1234567", "2.00000049", "1.", "007.50"])}

    def path(self, depth: int = 2) -> dict:
        segs: list = []
        if self.p.bracket_roots and self.chance(0.12):
            if self.chance(0.5):
                segs.append({"q": self.pick(self.p.names + ["a b", "x-y"])})
            else:
                segs.append({"p": {"k": "path", "segs": [{"s": self.name()}]}})
        else:
            segs.append({"s": self.name()})
        n = min(self.pick([0, 0, 0, 1, 1, 2, 3]), self.p.max_path_segments)
        for _ in range(n):
            c = self.r.random()
            if c < 0.55:
                segs.append({"s": self.pick(self.p.keys)})
            elif c < 0.7:
                segs.append({"q": self.pick(self.p.keys + ["a b", "x.y"])})
            elif c < 0.88:
                segs.append({"i": self.pick([0, 1, 2, -1, -2, 5])})
            elif self.p.nested_paths and depth > 0:
                segs.append({"p": self.path(depth - 1)})
            else:
                segs.append({"s": self.pick(["size", "first", "last"])})
        return {"k": "path", "segs": segs}

    def primitive(self, kinds: Optional[str] = None) -> dict:
        """A primitive expression. ``kinds`` biases: 'str','num','arr','any'."""
        c = self.r.random()
        if kinds == "str":
            return self.string() if c < 0.6 else self.path()
        if kinds in ("int", "num"):
            if c < 0.6:
                return self.integer()
            if c < 0.75 and kinds == "num" and self.p.float_literals:
                return self.floatlit()
            return self.path()
        if kinds == "arr":
            if c < 0.8:
                return self.path()
            return self.rangelit() if self.p.ranges else self.path()
        if kinds == "key":
            return {"k": "str", "v": self.pick(self.p.keys), "q": "'"} if c < 0.85 else self.path()
        if kinds == "fmt":
            return {"k": "str", "v": self.pick(["%Y", "%d/%m/%y", "%H:%M", "%a %b", "%s", "%%", "x"]), "q": "'"}
        # any
        if c < 0.45:
            return self.path()
        if c < 0.62:
            return self.string()
        if c < 0.76:
            return self.integer()
        if c < 0.82 and self.p.float_literals:
            return self.floatlit()
        if c < 0.90:
            return {"k": self.pick(["true", "false"])}
        if c < 0.94 and self.p.special_literals:
            return {"k": self.pick(["nil", "empty", "blank"] if self.p.nil_literal else ["empty", "blank"])}
        if self.p.ranges:
            return self.rangelit()
        return self.path()

    def argp(self, kinds: Optional[str] = None) -> dict:
        """A primitive usable as a filter/tag argument (empty/blank are not)."""
        e = self.primitive(kinds)
        if e["k"] in ("empty", "blank"):
            return {"k": "nil"} if self.p.nil_literal else {"k": "true"}
        return e

    def rangelit(self) -> dict:
        def bound():
            return self.integer() if self.chance(0.7) else self.path(0)

        return {"k": "range", "a": bound(), "b": bound()}

    def filter_(self) -> dict:
        table = dict(FILTER_ARGS)
        if self.p.extra_filters:
            table.update(EXTRA_FILTER_ARGS)
        name = self.pick(self.p.filters)
        spec = table.get(name, [])
        args: list = []
        if self.p.hostile_args and self.chance(0.5):
            for _ in range(self.pick([0, 1, 1, 2, 3])):
                args.append(self.argp())
            if self.chance(0.15):
                args.append({"kw": self.pick(["allow_false", "count", "x"]), "v": self.argp()})
        else:
            for kind in spec:
                if kind.startswith("?"):
                    if self.chance(0.5):
                        break
                    kind = kind[1:]
                args.append(self.argp(kind))
            if name == "default" and self.chance(0.3):
                args.append({"kw": "allow_false", "v": {"k": self.pick(["true", "false"])}})
        return {"name": name, "args": args}

    def filters(self, maxn: Optional[int] = None) -> list:
        maxn = self.p.max_filters if maxn is None else maxn
        n = min(self.pick([0, 0, 1, 1, 2, 3]), maxn)
        return [self.filter_() for _ in range(n)]

    def filtered(self) -> dict:
        e = {"k": "filt", "left": self.argp(), "filters": self.filters()}
        if self.p.ternary and self.chance(0.2):
            t = {"k": "tern", "left": e, "cond": self.boolean(2), "?alt": None, "altf": [], "tail": []}
            if self.chance(0.7):
                t["?alt"] = self.argp()
                if self.chance(0.4):
                    t["altf"] = self.filters(2) or [self.filter_()]
            if self.chance(0.3):
                t["tail"] = self.filters(2) or [self.filter_()]
            return t
        return e

    def comparison(self) -> dict:
        op = self.pick(["==", "!=", "<>", "<", ">", "<=", ">=", "contains"])
        l, rr = self.primitive(), self.primitive()
        if self.p.grouped_operands and self.p.parens and self.chance(0.15):
            grp = {"k": "group", "e": self.boolean(1)}
            if self.chance(0.5):
                l = grp
            else:
                rr = grp
        return {"k": "cmp", "op": op, "l": l, "r": rr}

    def boolean(self, depth: int = 2) -> dict:
        c = self.r.random()
        if depth <= 0 or c < 0.3:
            return self.primitive() if self.chance(0.5) else self.comparison()
        if c < 0.75:
            return {"k": self.pick(["and", "or"]), "l": self.boolean(depth - 1), "r": self.boolean(depth - 1)}
        if c < 0.85 and self.p.logical_not:
            return {"k": "not", "e": self.boolean(depth - 1)}
        if c < 0.95 and self.p.parens:
            return {"k": "group", "e": self.boolean(depth - 1)}
        return self.comparison()

    # -- nodes -----------------------------------------------------------
    def ws(self) -> Optional[list]:
        if self.p.ws_control and self.chance(0.15):
            return [self.chance(0.5), self.chance(0.5)]
        return None

    def block(self, depth: int, in_loop: bool = False, line_mode: bool = False) -> list:
        n = self.r.randint(0 if depth < self.p.depth else 1, self.p.width)
        return [self.node(depth, in_loop, line_mode) for _ in range(n)]

    def node(self, depth: int, in_loop: bool = False, line_mode: bool = False) -> dict:
        kinds = list(self.p.nodes)
        if depth <= 0:
            kinds = [k for k in kinds if k not in BLOCK_KINDS] or ["text"]
        if line_mode:
            kinds = [k for k in kinds if k in LINE_KINDS] or ["echo"]
        if in_loop and self.p.break_continue and self.chance(0.08):
            return {"k": self.pick(["break", "continue"])}
        kind = self.pick(kinds)
        if kind == "text" and self.chance(0.3) and "out" in kinds:
            kind = "out"
        return getattr(self, "n_" + kind)(depth, in_loop, line_mode)

    def n_text(self, depth, in_loop, line_mode) -> dict:
        return {"k": "text", "v": self.text(self.p.text_alphabet, 1, 8)}

    def n_out(self, depth, in_loop, line_mode) -> dict:
        return {"k": "out", "e": self.filtered(), "ws": self.ws()}

    def n_echo(self, depth, in_loop, line_mode) -> dict:
        return {"k": "echo", "e": self.filtered(), "ws": self.ws()}

    def n_assign(self, depth, in_loop, line_mode) -> dict:
        return {"k": "assign", "name": self.name(), "e": self.filtered(), "ws": self.ws()}

    def n_capture(self, depth, in_loop, line_mode) -> dict:
        return {"k": "capture", "name": self.name(), "body": self.block(depth - 1, in_loop, line_mode)}

    def n_incr(self, depth, in_loop, line_mode) -> dict:
        return {"k": "incr", "name": self.name()}

    def n_decr(self, depth, in_loop, line_mode) -> dict:
        return {"k": "decr", "name": self.name()}

    def _cond(self, kind, depth, in_loop, line_mode) -> dict:
        node = {
            "k": kind,
            "cond": self.boolean(2),
            "body": self.block(depth - 1, in_loop, line_mode),
            "elsifs": [],
            "?else": None,
            "ws": self.ws(),
        }
        for _ in range(self.pick([0, 0, 0, 1, 2])):
            node["elsifs"].append({"cond": self.boolean(1), "body": self.block(depth - 1, in_loop, line_mode)})
        if self.chance(0.4):
            node["?else"] = self.block(depth - 1, in_loop, line_mode)
        return node

    def n_if(self, depth, in_loop, line_mode) -> dict:
        return self._cond("if", depth, in_loop, line_mode)

    def n_unless(self, depth, in_loop, line_mode) -> dict:
        return self._cond("unless", depth, in_loop, line_mode)

    def n_case(self, depth, in_loop, line_mode) -> dict:
        whens = []
        for _ in range(self.pick([1, 1, 2, 3])):
            vals = [self.primitive() for _ in range(self.pick([1, 1, 2, 3]))]
            whens.append({"vals": vals, "sep": self.pick([",", "or"]), "body": self.block(depth - 1, in_loop, line_mode)})
        if self.chance(0.2):
            # an else block that is not last (the position of else is meaningful: whens after it are still tested)
            whens.insert(self.r.randrange(len(whens)), {"else": True, "vals": [], "sep": ",", "body": self.block(depth - 1, in_loop, line_mode)})
        return {
            "k": "case",
            "e": self.primitive(),
            "whens": whens,
            "?else": self.block(depth - 1, in_loop, line_mode) if self.chance(0.4) else None,
        }

    def _loop_args(self, node: dict) -> None:
        p_arg = 0.3
        if self.p.loop_arg_commas:
            node["argsep"] = self.pick(["", "", "", ",", ",+"])
            if self.chance(0.3):
                node["argorder"] = self.r.sample(range(4), 4)
            if node["argsep"]:
                # comma-separated arguments are only interesting when there are several of them
                p_arg = 0.7
                if "rev" in node and self.chance(0.5):
                    node["rev"] = True
        if self.chance(p_arg):
            node["?limit"] = self.primitive("int")
        if self.chance(p_arg):
            if self.p.offset_continue and self.chance(0.25):
                node["?offset"] = "continue"
            elif self.chance(0.12):
                # a variable that holds a keyword-like string ("continue", "reversed", ...: see DataGen.data)
                node["?offset"] = {"k": "path", "segs": [{"s": "kw"}]}
            else:
                node["?offset"] = self.primitive("int")

    def n_for(self, depth, in_loop, line_mode) -> dict:
        node = {
            "k": "for",
            "var": self.name(),
            "iter": self.primitive("arr"),
            "?limit": None,
            "?offset": None,
            "rev": self.chance(0.2),
            "body": self.block(depth - 1, True, line_mode),
            "?else": self.block(depth - 1, in_loop, line_mode) if self.chance(0.25) else None,
            "ws": self.ws(),
        }
        self._loop_args(node)
        return node

    def n_tablerow(self, depth, in_loop, line_mode) -> dict:
        node = {
            "k": "tablerow",
            "var": self.name(),
            "iter": self.primitive("arr"),
            "?limit": None,
            "?offset": None,
            "?cols": self.primitive("int") if self.chance(0.5) else None,
            "body": self.block(depth - 1, True, line_mode),
        }
        self._loop_args(node)
        if node["?offset"] == "continue":
            node["?offset"] = None
        return node

    def n_cycle(self, depth, in_loop, line_mode) -> dict:
        group = None
        if self.chance(0.4):
            group = self.string() if self.chance(0.6) else {"k": "path", "segs": [{"s": self.name()}]}
            if group["k"] == "str" and not group["v"]:
                group["v"] = "g"
        return {"k": "cycle", "?group": group, "args": [self.argp() for _ in range(self.pick([1, 2, 2, 3]))]}

    def n_ifchanged(self, depth, in_loop, line_mode) -> dict:
        return {"k": "ifchanged", "body": self.block(depth - 1, in_loop, line_mode)}

    def _partial(self, kind: str) -> dict:
        names = self.p.partials or ["missing"]
        if kind == "include" and self.p.dynamic_partial_names and self.chance(0.15):
            name: dict = {"k": "path", "segs": [{"s": "pname"}]}
        else:
            name = {"k": "str", "v": self.pick(names), "q": "'"}
        bind = None
        if self.chance(0.4):
            bind = {
                "kw": self.pick(["with", "for"]),
                "e": self.path(1),
                "?as": self.name() if self.chance(0.5) else None,
            }
            if "s" not in bind["e"]["segs"][0]:
                bind["e"]["segs"][0] = {"s": self.name()}
        args = [{"kw": self.name(), "v": self.argp()} for _ in range(self.pick([0, 0, 1, 2]))]
        if bind and args and self.chance(0.3):
            # the bound variable is named like one of the tag's own keyword arguments (which scope is it read in?)
            bind["e"] = {"k": "path", "segs": [{"s": args[0]["kw"]}]}
        if len(args) == 2 and self.chance(0.3):
            # a keyword argument that names its sibling
            args[1]["v"] = {"k": "path", "segs": [{"s": args[0]["kw"]}]}
        return {"k": kind, "name": name, "?bind": bind, "args": args}

    def n_include(self, depth, in_loop, line_mode) -> dict:
        if self.p.in_partial == "render":
            return self.n_out(depth, in_loop, line_mode)
        return self._partial("include")

    def n_render(self, depth, in_loop, line_mode) -> dict:
        return self._partial("render")

    def n_liquid(self, depth, in_loop, line_mode) -> dict:
        if line_mode:
            return self.n_echo(depth, in_loop, line_mode)
        return {"k": "liquid", "lines": [self.node(min(depth, 2) - 1, in_loop, True) for _ in range(self.r.randint(1, 4))]}

    def n_comment(self, depth, in_loop, line_mode) -> dict:
        return {"k": "comment", "v": self.text(["a", " ", "b", "\n"], 0, 6), "clines": ["echo 'hidden'", "assign zz = 1"][: self.pick([0, 1, 2])]}

    def n_inline_comment(self, depth, in_loop, line_mode) -> dict:
        return {"k": "inline_comment", "v": self.text(["a", " ", "b"], 0, 6)}

    def n_raw(self, depth, in_loop, line_mode) -> dict:
        return {"k": "raw", "v": self.text(["a", " ", "{{", "}}", "{%", "%}", "x", "\n"], 0, 6)}

    def n_doc(self, depth, in_loop, line_mode) -> dict:
        return {"k": "doc", "v": self.text(["a", " ", "@param x", "\n"], 0, 5)}

    # extra tags
    def n_macro(self, depth, in_loop, line_mode) -> dict:
        params = []
        for nm in self.r.sample(self.p.names, self.pick([0, 1, 2, 3])):
            params.append({"name": nm, "?default": self.argp() if self.chance(0.4) else None})
        return {"k": "macro", "name": self.pick(["m", "f", "g"]), "params": params, "body": self.block(depth - 1, False, line_mode)}

    def n_call(self, depth, in_loop, line_mode) -> dict:
        return {
            "k": "call",
            "name": self.pick(["m", "f", "g"]),
            "args": [self.argp() for _ in range(self.pick([0, 1, 2]))],
            "kwargs": [{"kw": self.name(), "v": self.argp()} for _ in range(self.pick([0, 0, 1, 2]))],
        }

    def n_with(self, depth, in_loop, line_mode) -> dict:
        return {
            "k": "with",
            "args": [{"kw": self.name(), "v": self.argp()} for _ in range(self.pick([1, 1, 2]))],
            "body": self.block(depth - 1, in_loop, line_mode),
        }

    def template(self) -> list:
        return self.block(self.p.depth)


BLOCK_KINDS = {"capture", "if", "unless", "case", "for", "tablerow", "ifchanged", "liquid", "macro", "with"}
LINE_KINDS = {
    "echo", "assign", "capture", "incr", "decr", "if", "unless", "case", "for", "tablerow", "cycle",
    "ifchanged", "include", "render", "inline_comment", "call", "with",
 "comment",
}


# ---------------------------------------------------------------------------
# to_source


@dataclass
class Delims:
    ts: str = "{%"
    te: str = "%}"
    os: str = "{{"
    oe: str = "}}"
    cs: str = "{#"  # template comment delimiters (only used by "tcomment" nodes)
    ce: str = "#}"
    lc: str = "#"  # comment marker for lines of a liquid tag


DEFAULT = Delims()


def expr_src(e: Any) -> str:
    k = e["k"]
    if k == "path":
        return path_src(e)
    if k == "str":
        return f"{e['q']}{e['v']}{e['q']}"
    if k == "int":
        return str(e["v"])
    if k == "float":
        return e["v"]
    if k in ("true", "false", "nil", "empty", "blank"):
        return k
    if k == "range":
        return f"({expr_src(e['a'])}..{expr_src(e['b'])})"
    if k == "filt":
        return expr_src(e["left"]) + filters_src(e["filters"])
    if k == "tern":
        s = f"{expr_src(e['left'])} if {bool_src(e['cond'])}"
        if e.get("?alt") is not None:
            s += f" else {expr_src(e['?alt'])}" + filters_src(e.get("altf") or [])
        if e.get("tail"):
            s += " ||" + filters_src(e["tail"])[2:]
        return s
    return bool_src(e)


def path_src(e: Any) -> str:
    out = []
    for i, seg in enumerate(e["segs"]):
        if "s" in seg:
            out.append(seg["s"] if i == 0 else "." + seg["s"])
        elif "q" in seg:
            q = '"' if "'" in seg["q"] else "'"
            out.append(f"[{q}{seg['q']}{q}]")
        elif "i" in seg:
            out.append(f"[{seg['i']}]")
        else:
            out.append(f"[{path_src(seg['p'])}]")
    return "".join(out)


def arg_src(a: Any) -> str:
    if "kw" in a:
        return f"{a['kw']}: {expr_src(a['v'])}"
    return expr_src(a)


def filters_src(fs: list) -> str:
    out = []
    for f in fs:
        s = f" | {f['name']}"
        if f["args"]:
            s += ": " + ", ".join(arg_src(a) for a in f["args"])
        out.append(s)
    return "".join(out)


def bool_src(b: Any) -> str:
    k = b["k"]
    if k in ("and", "or"):
        return f"{bool_src(b['l'])} {k} {bool_src(b['r'])}"
    if k == "not":
        return f"not {bool_src(b['e'])}"
    if k == "group":
        return f"({bool_src(b['e'])})"
    if k == "cmp":
        return f"{bool_src(b['l'])} {b['op']} {bool_src(b['r'])}"
    return expr_src(b)


def _tag(d: Delims, body: str, ws: Optional[list] = None) -> str:
    l = "-" if ws and ws[0] else ""
    r = "-" if ws and ws[1] else ""
    return f"{d.ts}{l} {body} {r}{d.te}"


def loop_expr_src(n: Any) -> str:
    s = f"{n['var']} in {expr_src(n['iter'])}"
    args = []
    if n.get("?limit") is not None:
        args.append(f"limit: {expr_src(n['?limit'])}")
    if n.get("?offset") is not None:
        off = n["?offset"]
        args.append("offset: " + ("continue" if off == "continue" else expr_src(off)))
    if n.get("?cols") is not None:
        args.append(f"cols: {expr_src(n['?cols'])}")
    if n.get("rev"):
        args.append("reversed")
    order = n.get("argorder")
    if order and len(order) >= len(args):
        args = [args[i] for i in sorted(range(len(args)), key=lambda i: order[i])]
    sep = n.get("argsep") or ""
    if not args:
        return s
    if sep == ",":
        return s + " " + ", ".join(args)
    if sep == ",+":
        return s + ", " + ", ".join(args)
    return s + " " + " ".join(args)


def partial_expr_src(n: Any) -> str:
    s = expr_src(n["name"])
    b = n.get("?bind")
    if b:
        s += f" {b['kw']} {expr_src(b['e'])}"
        if b.get("?as"):
            s += f" as {b['?as']}"
    if n["args"]:
        s += ", " + ", ".join(arg_src(a) for a in n["args"])
    return s


def block_src(nodes: list, d: Delims = DEFAULT) -> str:
    return "".join(node_src(n, d) for n in nodes)


def node_src(n: Any, d: Delims = DEFAULT) -> str:  # noqa: PLR0911, PLR0912
    k = n["k"]
    ws = n.get("ws")
    if k == "text":
        return n["v"]
    if k == "out":
        l = "-" if ws and ws[0] else ""
        r = "-" if ws and ws[1] else ""
        return f"{d.os}{l} {expr_src(n['e'])} {r}{d.oe}"
    if k == "echo":
        return _tag(d, f"echo {expr_src(n['e'])}", ws)
    if k == "assign":
        return _tag(d, f"assign {n['name']} = {expr_src(n['e'])}", ws)
    if k == "capture":
        return _tag(d, f"capture {n['name']}") + block_src(n["body"], d) + _tag(d, "endcapture")
    if k == "incr":
        return _tag(d, f"increment {n['name']}")
    if k == "decr":
        return _tag(d, f"decrement {n['name']}")
    if k in ("if", "unless"):
        s = _tag(d, f"{k} {bool_src(n['cond'])}", ws) + block_src(n["body"], d)
        for e in n.get("elsifs") or []:
            s += _tag(d, f"elsif {bool_src(e['cond'])}") + block_src(e["body"], d)
        if n.get("?else") is not None:
            s += _tag(d, "else") + block_src(n["?else"], d)
        return s + _tag(d, f"end{k}")
    if k == "case":
        s = _tag(d, f"case {expr_src(n['e'])}")
        for w in n["whens"]:
            if w.get("else"):
                s += _tag(d, "else") + block_src(w["body"], d)
                continue
            sep = ", " if w["sep"] == "," else " or "
            s += _tag(d, "when " + sep.join(expr_src(x) for x in w["vals"])) + block_src(w["body"], d)
        if n.get("?else") is not None:
            s += _tag(d, "else") + block_src(n["?else"], d)
        return s + _tag(d, "endcase")
    if k == "for":
        s = _tag(d, "for " + loop_expr_src(n), ws) + block_src(n["body"], d)
        if n.get("?else") is not None:
            s += _tag(d, "else") + block_src(n["?else"], d)
        return s + _tag(d, "endfor")
    if k == "tablerow":
        return _tag(d, "tablerow " + loop_expr_src(n)) + block_src(n["body"], d) + _tag(d, "endtablerow")
    if k in ("break", "continue"):
        return _tag(d, k)
    if k == "cycle":
        g = f"{expr_src(n['?group'])}: " if n.get("?group") is not None else ""
        return _tag(d, f"cycle {g}" + ", ".join(expr_src(a) for a in n["args"]))
    if k == "ifchanged":
        return _tag(d, "ifchanged") + block_src(n["body"], d) + _tag(d, "endifchanged")
    if k in ("include", "render"):
        return _tag(d, f"{k} " + partial_expr_src(n))
    if k == "liquid":
        lines = []
        for ln in n["lines"]:
            lines.extend(line_src(ln, d))
        return f"{d.ts} liquid\n" + "\n".join(lines) + f"\n{d.te}"
    if k == "comment":
        return _tag(d, "comment") + n["v"] + _tag(d, "endcomment")
    if k == "inline_comment":
        return _tag(d, "# " + n["v"])
    if k == "raw":
        return _tag(d, "raw") + n["v"] + _tag(d, "endraw")
    if k == "doc":
        return _tag(d, "doc") + n["v"] + _tag(d, "enddoc")
    if k == "macro":
        ps = ", ".join(p["name"] + (f": {expr_src(p['?default'])}" if p.get("?default") is not None else "") for p in n["params"])
        return _tag(d, f"macro {n['name']}" + (" " + ps if ps else "")) + block_src(n["body"], d) + _tag(d, "endmacro")
    if k == "call":
        args = [expr_src(a) for a in n["args"]] + [arg_src(a) for a in n["kwargs"]]
        return _tag(d, f"call {n['name']}" + (" " + ", ".join(args) if args else ""))
    if k == "with":
        return _tag(d, "with " + ", ".join(arg_src(a) for a in n["args"])) + block_src(n["body"], d) + _tag(d, "endwith")
    if k == "extends":
        return _tag(d, f"extends '{n['name']}'")
    if k == "block":
        req = " required" if n.get("required") else ""
        return _tag(d, f"block {n['name']}{req}") + block_src(n["body"], d) + _tag(d, "endblock" + (f" {n['name']}" if n.get("endname") else ""))
    if k == "tcomment":  # template comment, e.g. {# ... #}
        return d.cs + n["v"] + d.ce
    if k == "src":  # verbatim source fragment
        return n["v"]
    raise ValueError(f"unknown node kind {k}")


def line_src(n: Any, d: Delims = DEFAULT) -> list:  # noqa: PLR0911, PLR0912
    """Lines of a {% liquid %} tag for node ``n``."""
    k = n["k"]

    def body(nodes):
        out = []
        for c in nodes:
            out.extend(line_src(c, d))
        return out

    if k == "echo":
        return [f"echo {expr_src(n['e'])}"]
    if k == "assign":
        return [f"assign {n['name']} = {expr_src(n['e'])}"]
    if k == "capture":
        return [f"capture {n['name']}", *body(n["body"]), "endcapture"]
    if k == "incr":
        return [f"increment {n['name']}"]
    if k == "decr":
        return [f"decrement {n['name']}"]
    if k in ("if", "unless"):
        out = [f"{k} {bool_src(n['cond'])}", *body(n["body"])]
        for e in n.get("elsifs") or []:
            out += [f"elsif {bool_src(e['cond'])}", *body(e["body"])]
        if n.get("?else") is not None:
            out += ["else", *body(n["?else"])]
        return [*out, f"end{k}"]
    if k == "case":
        out = [f"case {expr_src(n['e'])}"]
        for w in n["whens"]:
            if w.get("else"):
                out += ["else", *body(w["body"])]
                continue
            sep = ", " if w["sep"] == "," else " or "
            out += ["when " + sep.join(expr_src(x) for x in w["vals"]), *body(w["body"])]
        if n.get("?else") is not None:
            out += ["else", *body(n["?else"])]
        return [*out, "endcase"]
    if k == "for":
        out = ["for " + loop_expr_src(n), *body(n["body"])]
        if n.get("?else") is not None:
            out += ["else", *body(n["?else"])]
        return [*out, "endfor"]
    if k == "tablerow":
        return ["tablerow " + loop_expr_src(n), *body(n["body"]), "endtablerow"]
    if k in ("break", "continue"):
        return [k]
    if k == "cycle":
        g = f"{expr_src(n['?group'])}: " if n.get("?group") is not None else ""
        return [f"cycle {g}" + ", ".join(expr_src(a) for a in n["args"])]
    if k == "ifchanged":
        return ["ifchanged", *body(n["body"]), "endifchanged"]
    if k in ("include", "render"):
        return [f"{k} " + partial_expr_src(n)]
    if k == "inline_comment":
        return [d.lc + " " + n["v"]]
    if k == "comment":  # a block comment inside a liquid tag: its body is lines that look like tags
        return ["comment", *(n.get("clines") or []), "endcomment"]
    if k == "call":
        args = [expr_src(a) for a in n["args"]] + [arg_src(a) for a in n["kwargs"]]
        return [f"call {n['name']}" + (" " + ", ".join(args) if args else "")]
    if k == "with":
        return ["with " + ", ".join(arg_src(a) for a in n["args"]), *body(n["body"]), "endwith"]
    if k == "text":
        return []
    if k == "out":
        return [f"echo {expr_src(n['e'])}"]
    raise ValueError(f"node kind {k} has no line form")


def to_source(nodes: list, d: Delims = DEFAULT) -> str:
    return block_src(nodes, d)


def walk(nodes: list):
    """Yield every node (depth first) of a template AST."""
    for n in nodes:
        yield n
        for key in ("body", "?else", "lines"):
            v = n.get(key)
            if isinstance(v, list):
                yield from walk(v)
        for e in n.get("elsifs") or []:
            yield from walk(e["body"])
        for w in n.get("whens") or []:
            yield from walk(w["body"])


def kinds(nodes: list) -> set:
    return {n["k"] for n in walk(nodes)}
