"""Source-level mutation operators and token soup."""

from __future__ import annotations

import re
from typing import Any

TAG_NAMES = [
    "if", "elsif", "else", "endif", "unless", "endunless", "case", "when", "endcase", "for", "endfor",
    "break", "continue", "tablerow", "endtablerow", "capture", "endcapture", "assign", "echo", "cycle",
    "increment", "decrement", "ifchanged", "endifchanged", "include", "render", "liquid", "comment",
    "endcomment", "raw", "endraw", "doc", "enddoc", "#", "macro", "endmacro", "call", "with", "endwith",
    "extends", "block", "endblock", "translate", "plural", "endtranslate", "nosuchtag", "end", "",
]
EXPR_LEXEMES = [
    "a", "b", "x", "items", "user.name", "a[0]", "a['k']", "a[b]", "[a]", "'s'", '"t"', "1", "-1", "1.5", "0",
    "true", "false", "nil", "empty", "blank", "(1..3)", "(a..b)", "==", "!=", "<>", "<", ">", "<=", ">=",
    "contains", "and", "or", "not", "(", ")", "[", "]", ".", "..", ",", ":", "|", "||", "=", "in",
    "limit:", "offset:", "cols:", "reversed", "continue", "with", "for", "as", "if", "else", "required",
    "upcase", "append:", "default:", "join:", "plural:", "count:", "%", "!", "?", "#", "-", "--", "'", '"',
]
TEXT_LEXEMES = ["a", " ", "\n", "\t", "x y", "{", "}", "%", "#", "{ {", "é", "<b>", "\r\n", "\r", "\x0c", "\u2028", "\x85"]
DELIMS = ["{{", "}}", "{%", "%}", "{{-", "-}}", "{%-", "-%}", "{#", "#}"]

_TOKEN_RE = re.compile(r"\{\{-?|-?\}\}|\{%-?|-?%\}|\s+|\w+|.", re.DOTALL)


def tokens_of(src: str) -> list:
    return _TOKEN_RE.findall(src)


class Mut:
    def __init__(self, r: Any):
        self.r = r

    def pick(self, seq):
        return seq[self.r.randrange(len(seq))]

    def soup(self, n_lo: int = 1, n_hi: int = 14) -> str:
        """A sequence of markup-ish pieces from the lexeme dictionary."""
        out = []
        for _ in range(self.r.randint(n_lo, n_hi)):
            c = self.r.random()
            if c < 0.45:
                name = self.pick(TAG_NAMES)
                expr = " ".join(self.pick(EXPR_LEXEMES) for _ in range(self.pick([0, 0, 1, 2, 3, 5])))
                l = self.pick(["", "", "-"])
                rr = self.pick(["", "", "-"])
                out.append(f"{{%{l} {name} {expr} {rr}%}}")
            elif c < 0.7:
                expr = " ".join(self.pick(EXPR_LEXEMES) for _ in range(self.pick([0, 1, 2, 3, 4, 6])))
                out.append(f"{{{{ {expr} }}}}")
            elif c < 0.9:
                out.append(self.pick(TEXT_LEXEMES))
            else:
                out.append(self.pick(DELIMS))
        return "".join(out)

    def liquid_soup(self) -> str:
        lines = []
        for _ in range(self.r.randint(1, 6)):
            name = self.pick(TAG_NAMES)
            expr = " ".join(self.pick(EXPR_LEXEMES) for _ in range(self.pick([0, 1, 2, 3])))
            lines.append(f"{name} {expr}")
        return "{% liquid\n" + "\n".join(lines) + "\n%}"

    def mutate(self, src: str, n: int = 1) -> tuple[str, list]:
        ops = []
        for _ in range(n):
            toks = tokens_of(src)
            if not toks:
                src = self.soup(1, 3)
                ops.append("soup")
                continue
            op = self.pick(
                ["delete", "duplicate", "swap", "drop_end", "truncate", "insert_orphan", "insert_lexeme",
                 "unknown_tag", "unbalance", "replace_lexeme", "double_comma", "stray_pipe"]
            )
            i = self.r.randrange(len(toks))
            if op == "delete":
                del toks[i]
            elif op == "duplicate":
                toks.insert(i, toks[i])
            elif op == "swap":
                j = self.r.randrange(len(toks))
                toks[i], toks[j] = toks[j], toks[i]
            elif op == "drop_end":
                ends = [k for k, t in enumerate(toks) if t.startswith("end") and len(t) > 3]
                if ends:
                    k = self.pick(ends)
                    # remove the whole "{% endx %}" tag
                    lo, hi = k, k
                    while lo > 0 and not toks[lo].startswith("{%"):
                        lo -= 1
                    while hi < len(toks) - 1 and not toks[hi].endswith("%}"):
                        hi += 1
                    del toks[lo : hi + 1]
            elif op == "truncate":
                toks = toks[:i]
            elif op == "insert_orphan":
                toks.insert(i, "{% " + self.pick(["else", "elsif x", "when 1", "break", "continue", "endif", "endfor", "endcase", "endcapture", "plural", "endblock", "endmacro", "block a %}x{% endblock b", "extends 'base' %}{% extends 'base'",
                                                      "block a %}{% block a %}{% endblock %}{% endblock"]) + " %}")
            elif op == "insert_lexeme":
                toks.insert(i, " " + self.pick(EXPR_LEXEMES) + " ")
            elif op == "replace_lexeme":
                toks[i] = self.pick(EXPR_LEXEMES)
            elif op == "unknown_tag":
                toks.insert(i, "{% nosuchtag a b %}")
            elif op == "unbalance":
                toks.insert(i, self.pick(DELIMS))
            elif op == "double_comma":
                toks.insert(i, ",,")
            elif op == "stray_pipe":
                toks.insert(i, " | ")
            src = "".join(toks)
            ops.append(op)
        return src, ops
