"""Evaluate a function in a process that has never rendered anything.

A *zygote* is a freshly spawned interpreter that imports liquid (and the
harness) but never parses or renders; for every request it forks a child,
which evaluates the request and dies.  So each request sees the module state
of a brand-new process (empty memo caches, no earlier environments) at the
cost of one fork (~2 ms).
"""

from __future__ import annotations

import importlib
import multiprocessing as mp
import os
import pickle
import sys
from typing import Any
from typing import Optional


def _zygote_main(conn: Any, path: list) -> None:
    sys.path[:] = path
    import warnings

    warnings.simplefilter("ignore")
    import liquid  # noqa: F401  (import only: nothing is parsed or rendered here)

    while True:
        try:
            msg = conn.recv()
        except EOFError:
            break
        if msg is None:
            break
        modname, fname, payload = msg
        # import (never call) the target module in the zygote itself, so that
        # children do not pay for the import after every fork
        try:
            importlib.import_module(modname)
        except Exception:  # noqa: BLE001 - reported by the child
            pass
        r, w = os.pipe()
        pid = os.fork()
        if pid == 0:
            try:
                os.close(r)
                try:
                    fn = getattr(importlib.import_module(modname), fname)
                    out = ("ok", fn(payload))
                except BaseException as err:  # noqa: BLE001
                    out = ("error", f"{type(err).__name__}: {err}")
                with os.fdopen(w, "wb") as fd:
                    fd.write(pickle.dumps(out))
            finally:
                os._exit(0)
        os.close(w)
        with os.fdopen(r, "rb") as fd:
            blob = fd.read()
        os.waitpid(pid, 0)
        try:
            conn.send(pickle.loads(blob) if blob else ("error", "child produced no result"))
        except Exception as err:  # noqa: BLE001
            conn.send(("error", f"unpicklable result: {err}"))


class Zygote:
    def __init__(self) -> None:
        ctx = mp.get_context("spawn")
        self.conn, child = ctx.Pipe()
        self.proc = ctx.Process(target=_zygote_main, args=(child, list(sys.path)), daemon=True)
        self.proc.start()
        child.close()

    def call(self, modname: str, fname: str, payload: Any) -> Any:
        self.conn.send((modname, fname, payload))
        status, val = self.conn.recv()
        if status != "ok":
            from .core import HarnessError

            raise HarnessError(f"isolated evaluation failed: {val}")
        return val

    def close(self) -> None:
        try:
            self.conn.send(None)
        except Exception:  # noqa: BLE001
            pass
        self.proc.join(timeout=2)


_Z: Optional[Zygote] = None
_Z_PID: Optional[int] = None


def isolated(modname: str, fname: str, payload: Any) -> Any:
    """Run ``modname.fname(payload)`` in a pristine process and return the result."""
    global _Z, _Z_PID  # noqa: PLW0603
    if _Z is None or _Z_PID != os.getpid():
        _Z = Zygote()
        _Z_PID = os.getpid()
    return _Z.call(modname, fname, payload)
