"""Source of truth for MANIFEST.json (tools/gen_manifest.py renders it)."""

SETUP = (
    "/venv/bin/python -c 'import hypothesis' 2>/dev/null || "
    "/venv/bin/pip install --no-index --find-links /opt/veriftools/wheels hypothesis; "
    "/venv/bin/python -c 'import hypothesis, liquid; print(hypothesis.__version__)'; "
    "PYTHONPATH=/verif/.deps /venv/bin/python -c 'import atheris' 2>/dev/null || "
    "/venv/bin/pip install -q --no-index --find-links /opt/veriftools/wheels --target /verif/.deps atheris || "
    "echo 'atheris not installed: the fuzzing stage of the thorough tiers will be skipped and say so in the evidence'"
)

HOOKS = {
    "guard": "LIQUID_VERIF",
    "enable": "no source hooks: checks import /repo's working tree directly (PYTHONPATH=/repo) and instrument by subclassing/wrapping from the harness process",
    "baseline_off_cmd": "cd /repo && /venv/bin/python -m pytest -ra -q -p no:cacheprovider --timeout=900 --continue-on-collection-errors",
    "source_commits": [],
    "add_only": True,
}

ENGINES = [
    {
        "name": "vf",
        "path": "/verif/vf",
        "serves_properties": [],
        "kind_free_text": "Hypothesis strategies + exhaustive enumeration driving per-property oracles (reference models, differentials, metamorphic relations); collect-bucket-minimise instead of stop-at-first-failure",
    }
]

NOTES = (
    "All checks: python -m vf.run <id> <tier>. Deterministic in VERIF_SEED. exit 2 = harness error. "
    "known_findings.json lists genuine defects (fixed ones are replayed as regression cases)."
)

ALL = [f"C{i:02d}" for i in range(1, 28)]

CHECKS = {
    "C01": {
        "technique": "differential testing: sync vs async twins on generated templates x data x config x loader",
        "text": "Generated templates (all standard and extra tags, filters, expression forms), partials with directory/suffix names, JSON-like data, random flags/tolerance/undefined type and seven loader kinds (with and without namespace) are pushed down both the synchronous and asynchronous path of render, get_template, analyze and analyze_tags in separately built (and in one shared) environments; any difference in output, error class, template name/source/globals or analysis is reported. Sampling, not exhaustive.",
        "design_ref": "DESIGN.md §4 C01",
        "note": "Async-only data objects (__getitem_async__) are outside the domain. A crash raised identically on both paths is left to C02.",
    },
    "C02": {
        "technique": "validity-oracle fuzzing: filter x value and tag-argument matrices, hostile-data templates, token soup; exception-type predicate bucketed by call site",
        "text": "Every registered filter x typed value pool (pairwise-complete in the thorough tier), 44 tag shapes x pool x pool, random templates with hostile data and mutated/soup sources are parsed and rendered sync and async in STRICT, WARN and LAX; anything other than success or a LiquidError subclass is a violation, bucketed by (exception type, innermost liquid/ frame) so each call site is reported once. An 'aftermath' family runs every construct that depends on loop, scope or buffer state after every construct that fails part-way and is tolerated (depth-limit nests, failing filters, missing and recursive partials, resource limits hit mid-render), in the three modes.",
        "design_ref": "DESIGN.md §4 C02",
        "note": "Data domain is None/bool/int/float/str/list/dict/range as the property states; custom drops and bytes are not generated.",
    },
    "C03": {
        "technique": "differential + invariant testing across tolerance modes on valid, mutated and token-soup sources",
        "text": "Each generated source the lexer accepts is parsed and rendered in STRICT, LAX and WARN. LAX must never raise; WARN must match LAX's output, and the number of errors it suppressed (counted at Environment.error) must equal the number of LiquidWarnings captured; a strict-mode render error must produce a warning in WARN mode; a strict-clean template must render identically in all three modes with no warnings. A matrix puts 32 malformed or wrong-kind expressions into 36 tag positions; 15% of the cases are rewritten with CRLF/CR/U+2028/FF line breaks and leading blank lines.",
        "design_ref": "DESIGN.md §4 C03",
        "note": "Does not assert 'STRICT parse fails => WARN warns' (parsers are deliberately lenient outside strict mode). Non-Liquid crashes are C02's scope.",
    },
    "C04": {
        "technique": "round-trip property testing: parse -> str -> parse -> str, plus differential render of original vs re-parsed template",
        "text": "Random templates over every standard tag with not/parentheses/ternary enabled and hostile literals (quotes, backslashes, newlines, bracketed roots, nested paths, ranges): str(T) must parse, be a fixed point of parse->str, and the re-parsed template must render like the original on 3 data sets. Failures are localised to the smallest single node reproducing them. Float literals include values whose Python repr uses an exponent or more than six decimals.",
        "design_ref": "DESIGN.md §4 C04",
        "note": "The nil literal is excluded by construction (known finding C04-nil-prints-empty, pinned by the repo's own tests). Textual equality with the original source is not asserted.",
    },
    "C12": {
        "technique": "model-based exhaustive testing: value lattice x operators x contexts and and/or/not trees vs reference model",
        "text": "Every pair from a 33-value lattice x 8 operators x 5 condition contexts (variables and literals) and every and/or sequence of up to 5 operands with one optional (negated) group is evaluated by the engine and by a reference model written from the documentation; results must agree wherever the documentation decides (DONT_CARE elsewhere). Exhaustive within the lattice in the thorough tier.",
        "design_ref": "DESIGN.md §4 C12",
        "note": "Trusts vf/ref/logic.py. Values outside the lattice (custom drops, NaN) are not covered; documented ambiguities are listed as DONT_CARE in the evidence assumptions.",
    },
    "C13": {
        "technique": "model-based exhaustive testing: collections x limit x offset x reversed x cols vs reference loop model",
        "text": "All collections of length 0..8 (0..4 quick) of every kind x limit x offset (absent, -3..len+3, 1e20) x reversed, tablerow with every cols value, plus random loop sequences sharing offset:continue, break/continue and nested parentloop; each body prints item and every helper and the complete output must equal the reference model's (from/to slicing of the reference implementation, helpers from the position in the kept segment, documented tablerow row/column structure). Further relations: else renders iff nothing is visited, under every wrapper; a loop left through a tolerated error (also while being entered, at the depth limit) leaves nothing on the loop stack; ranges whose bounds depend on an outer loop variable or change between two renders of one parsed template.",
        "design_ref": "DESIGN.md §4 C13",
        "note": "Trusts vf/ref/loops.py. continue after a negative offset and cols <= 0 are not asserted.",
    },
    "C25": {
        "technique": "exhaustive small-domain testing of filter contracts vs reference implementations and algebraic laws",
        "text": "Each documented contract (size, case/whitespace ops, split/join round trip, reverse/sort/sort_natural/uniq/compact/concat/map/where/reject, slice/first/last, truncate, truncatewords, arithmetic, default) is an executable oracle evaluated on complete small typed pools (all strings over a 5-letter alphabet up to length 3/4, all lists over 5 elements up to length 3/4, all pairs of numeric operands incl. huge ints, floats and numeric strings); results are read back exactly through the json filter, and inputs are checked to be unchanged (snapshot taken before the render). where/reject take explicit falsy targets; default takes allow_false.",
        "design_ref": "DESIGN.md §4 C25",
        "note": "Exhaustive only for the stated pools. Ambiguous documentation (round .5 ties, negative float modulo, slice before the start, mixed-type sort) is not asserted.",
    },
    "C26": {
        "technique": "reference-formatter testing: generated messages x filters/tag x counts vs gettext.NullTranslations",
        "text": "Random messages over an alphabet rich in percent forms are pushed through the translate tag and the t/gettext/ngettext/pgettext/npgettext filters (message as literal and variable; message variables from the context or passed as keyword arguments: literal, nil, undefined, number, another variable) with every count in the pool; output must equal the message with only %(name)s placeholders substituted (%% kept or collapsed; tag modulo whitespace runs), and the plural form must be the one gettext.NullTranslations selects.",
        "design_ref": "DESIGN.md §4 C26",
        "note": "Uses Python's gettext.NullTranslations as the plural oracle. Message catalogues are out of scope (the property is about their absence).",
    },
    "C24": {
        "technique": "model-based testing: exhaustive op histories + owned schedules vs list-LRU reference model; thread stress",
        "text": "Every op history up to length 4 (quick) / 5 (thorough) over 20 ops (values include None), capacities 1-4, both cache classes, is compared step by step with an independent list model, so within that bound the sequential clause is decided completely; longer random histories sample beyond it. 'While being listed' is decided deterministically by owned schedules (listing begun, other ops interleaved, listing drained); 'under concurrent use' by access schedules: another thread's whole operation is run before any access a call makes to the underlying dict while the lock is free, or between two of its critical sections, and the pair must equal one of its two sequential orders; real threads add a one-sided stress. The cache's lock is swapped for one that raises on re-entry by its holder, so a self-deadlock is reported instead of hanging.",
        "design_ref": "DESIGN.md §4 C24",
        "note": "Trusts the 60-line list model (vf/ref/lru.py). Real OS schedules are not owned: pre-emption inside a locked method is not explored.",
    },
}

for _c in CHECKS.values():
    pass
ENGINES[0]["serves_properties"] = sorted(CHECKS)

CHECKS["C27"] = {
    "technique": "exhaustive model-based testing: macro signatures x call shapes, nested with blocks vs reference binder",
    "text": "Every macro signature with 0-3 parameters (no default / literal default / late-bound variable default) x every call with 0-4 positional and 0-3 keyword arguments (matching, foreign and duplicate names; one argument nil in turn) is rendered with a body printing every parameter, args and kwargs and compared with a reference binder written from docs/optional_tags.md; random nested with blocks are compared with a scope-stack model (arguments evaluated in the enclosing scope, visible only inside, outer values restored).",
    "design_ref": "DESIGN.md §4 C27",
    "note": "Trusts the ~40-line binder in vf/props/c27_macro_with.py. Argument values are string literals and one late-bound variable; expression-valued arguments are covered by C01/C02 templates.",
}

CHECKS["C10"] = {
    "technique": "exhaustive constructive-reference testing: piece sequences x hyphen flags",
    "text": "Sources are assembled from 143 piece variants (texts with every ASCII whitespace character, non-ASCII whitespace (NBSP, NEL, U+2003, U+2028, U+3000, U+001C) and markup-like fragments; output, echo, raw, comment, doc, inline comment, liquid (also holding a comment line) and {# #} pieces with every left/right hyphen combination on outer and inner delimiters); the expected output is constructed piece by piece (text verbatim, raw body verbatim, comments nothing, a hyphen strips only the adjacent text). All sequences up to 3 pieces are enumerated in the thorough tier (2M sources), up to 2 plus a 1/60 slice of length 3 in quick, plus random longer sequences.",
    "design_ref": "DESIGN.md §4 C10",
    "note": "Default delimiters and the template_comments environment only (custom delimiters are C11). Hyphens on inner raw/comment/doc delimiters are expected to have no effect.",
}

CHECKS["C21"] = {
    "technique": "exhaustive token-sequence testing of the tag audit vs strict parser (validity predicates)",
    "text": "Every sequence of up to 3 (quick: half of length 3) / 4 (thorough: 5.3M sources) tag tokens over a 40-name alphabet of registered block, inner, end, inline and unknown tags, in the default and the extra environment, plus structure-biased longer sequences and generated valid templates: analyze_tags_from_string must return; a source that parses in strict mode must have no unclosed/unexpected/unknown report; unregistered names must be reported unknown and block tags without end tag unclosed.",
    "design_ref": "DESIGN.md §4 C21",
    "note": "Three known findings (stray break/continue; branches after else swallowed by the lax if parser) are suppressed by bucket + case predicate; the end tag of an unknown block counts as reported when its start tag is reported.",
}

CHECKS["C06"] = {
    "technique": "exhaustive reference-arithmetic testing: nest shapes x lengths x limits, marker counts vs products",
    "text": "All nests of depth <= 3 over seven repeating/wrapping constructs x lengths {0,1,2,3,5} x five limits around the product (180k renders in the thorough tier; quick takes a 1/12 slice of depth 3) random depth 3-4 nests with lengths 0-12, enumerated sequences (every construct in front of every nest of two, at top level and inside a for or a render), loops over strings with and without string_sequences, and random forests (sibling nests, list/range/dict/string collections, offset/limit arguments): each node emits its own marker, so the number of executions of every block is observed directly; a nest whose prefix product exceeds the limit must raise LoopIterationLimitError and a nest within the limit must complete with exactly the expected counts.",
    "design_ref": "DESIGN.md §4 C06",
    "note": "Depth 4 is sampled, not enumerated. Plain include/render/macro levels count as length 1 and must carry the enclosing product.",
}

CHECKS["C07"] = {
    "technique": "invariant testing under limit sweeps with an independent size measure (recording RenderContext subclass)",
    "text": "Random multi-byte templates with captures, partials and loops are rendered unlimited (U bytes, measured namespace maximum s) and then under sweeps of output_stream_limit and local_namespace_limit (0, 1, value-1, value, value+1, 2*value, 2 random): a completed render must return <= L bytes, U > L must raise OutputStreamLimitError, and a completed render must never have held locals whose independently measured size (own + ancestors through parent_context, recomputed after every accepted assign/capture) exceeded M. An enumerated family enters a partial that binds locals in 18 ways (render/include, plain, with, for array, nested, inside loops and captures) from parents of three sizes, so that the peak lies inside the partial.",
    "design_ref": "DESIGN.md §4 C07",
    "note": "Instrumentation is a RenderContext subclass installed through Environment.template_class (no source hook); reads the private attribute RenderContext.parent_context.",
}
CHECKS["C08"] = {
    "technique": "metamorphic testing: per-limit monotone sweeps against the unlimited render",
    "text": "For every generated strict-mode template and data set, each of the five resource limits is swept over 9-11 values from 0 to far beyond the resource used (~50 renders per case, each in its own Environment subclass); every outcome must equal the unlimited outcome or be a ResourceLimitError subclass, and success must be monotone in the limit value.",
    "design_ref": "DESIGN.md §4 C08",
    "note": "Strict mode only. The 'unlimited' baseline uses context_depth_limit 40 (not infinity) so that runaway recursion stays inside the Python stack; block nesting is checked at parse time.",
}

CHECKS["C16"] = {
    "technique": "differential testing across undefined types + exception-type predicates on targeted missing-variable uses",
    "text": "54 targeted uses of a missing variable (output, iteration, comparison, 39 filters, filter arguments) x 19 kinds of missing path (absent keys, out-of-range indexes, through nil, through a number) must raise UndefinedError under StrictUndefined and never under the default type; at these and at 64 further positions (comparison with nil/empty/blank/false, truthiness, every filter argument position) whatever strict type lets the render succeed must give the default type's output; random templates rendered with data from which ~30% of keys/sub-paths were deleted must, whenever a strict type renders successfully, produce exactly the default type's output.",
    "design_ref": "DESIGN.md §4 C16",
    "note": "The default type may still raise other Liquid errors (type errors by C12).",
}
CHECKS["C17"] = {
    "technique": "invariant testing (data/template snapshots) + history-based differential testing against isolated evaluation in a pristine forked process",
    "text": "(a) after rendering random filter-heavy templates the data must equal a type- and order-aware snapshot taken before, the template's str() and structural fingerprint must be unchanged and a second render must agree. (b) histories of renders in shared environments, built from templates that reach memoised or stateful code and from equal-but-distinct values (1/1.0/True, str/Markup, equal instants in different zones, date/datetime), are compared step by step with the same render evaluated alone: in a fresh environment with known caches cleared, and in a process forked from a zygote that has imported liquid but never rendered. 30% of the histories fetch their templates by name from a (caching) loader, with request globals, without, or with render arguments only.",
    "design_ref": "DESIGN.md §4 C17",
    "note": "Current-time constructs and source edits are excluded as the property allows. Process isolation is run by one shard only (fork throughput).",
}

CHECKS["C14"] = {
    "technique": "model-based testing: random binding programs x layered data vs a reference interpreter",
    "text": "Random programs in a small binding language (assign, capture, for, tablerow, with, include with/for/as + keyword arguments, increment/decrement, path output) bind the same four names at every layer (block scopes, locals, render arguments, front matter, template globals, environment globals, user 'now', counters) in arbitrary nesting; the engine's output must equal that of a 200-line reference interpreter implementing the documented lookup order and path rules (dotted, quoted, negative index, nested variable, bracketed root naming another variable, size/first/last).",
    "design_ref": "DESIGN.md §4 C14",
    "note": "Trusts vf/ref/scope.py. A boolean used as an index is treated as unspecified (not asserted).",
}
CHECKS["C15"] = {
    "technique": "metamorphic testing: invariance of partial output under caller changes and of caller output under partial changes",
    "text": "For random caller/partial pairs (render plain, with-as, for-as, literal arguments; macro/call) R1 compares the partial's output (between sentinels) under two different preludes binding the same names by assign/capture/for/with/counter, R2 compares the caller's postlude with and without the partial's assignments, R3 requires DisabledTagError for include inside rendered partials and macro bodies.",
    "design_ref": "DESIGN.md §4 C15",
    "note": "Arguments are literals and globals are fixed so that only caller locals vary. State carried between items of 'render ... for' is not asserted.",
}

CHECKS["C05"] = {
    "technique": "validity-predicate + metamorphic fuzzing of filter chains and tags under autoescape with hostile data",
    "text": "With autoescape on, (A) random templates and direct filter chains (1-4 filters from every built-in string/array/math filter except the HTML-generating ones) fed with data strings rich in <>&'\" must produce output with no raw special character, and (A') every & must start a complete entity when no cutting filter is involved; (B) Markup and __html__ values must pass through 14 output shapes unchanged; (C) for data without special characters the output must be identical with autoescape off - asserted only when a filter spy saw no special character in any intermediate string. 27 shapes feed every argument position of the translation filters and the translate tag from hostile data.",
    "design_ref": "DESIGN.md §4 C05",
    "note": "safe, newline_to_br, script_tag, stylesheet_tag, date, json, escapejs and tablerow are outside the property's domain. Template text/literals contain no special characters by construction.",
}
CHECKS["C18"] = {
    "technique": "model-based testing: generated inheritance chains vs a reference flattener",
    "text": "Chains of 1-4 templates over four block names (nested blocks, partial overrides, required flags, block.super at any depth, leaf text before extends, text outside blocks, variables and a loop around blocks in the root, the extends tag at top level or inside an if/unless/else/case/for/with block that is entered) and faulty chains (circular extends, duplicate block names, mismatched endblock) are rendered and compared with a 60-line flattener that substitutes most-derived definitions and unwinds super; error classes must match for the fault cases.",
    "design_ref": "DESIGN.md §4 C18",
    "note": "Mutually containing blocks across templates (no finite flattening) only need to end in a Liquid error. Duplicate blocks in a template rendered on its own are not asserted.",
}

CHECKS["C22"] = {
    "technique": "validity-oracle fuzzing of template names against a sandbox directory tree with decoys and symlinks",
    "text": "Every process builds a throw-away tree (search directories with uniquely labelled files, decoys outside, symlinks out of / into the tree and to a prefix-sharing sibling, a throw-away package) and requests names assembled from '..', '.', absolute prefixes, NUL/control characters, unicode, 300-character components and link names from 9 loader configurations (FileSystemLoader variants, CachingFileSystemLoader, PackageLoader), sync and async. A result must be TemplateNotFoundError or a template whose path is lexically - and with reject_symlinks really - inside a search directory and whose text is that file's content. For caching loaders the same name must resolve identically on a loader whose cache already holds the tree's ordinary templates.",
    "design_ref": "DESIGN.md §4 C22",
    "note": "POSIX file system semantics of this sandbox (tmpfs/ext4); Windows drive/UNC names are only fed as plain strings.",
}

CHECKS["C23"] = {
    "technique": "model-based history testing: request/edit sequences on caching loaders vs their non-caching twins",
    "text": "Random histories (3-12 steps) of synchronous and asynchronous requests - direct with namespace keyword / request globals, or through include+render tags with the namespace in the render context - interleaved with source edits and removals, for six caching loaders (dict, choice, file system, namespace-aware dict/file loaders composed with CachingLoaderMixin as documented, and a choice loader over two namespace-aware children) with capacity 1-4, auto_reload on/off and namespace_key set/unset; after every request the name, source, globals and rendered text (or error class) must equal those of the same loader without the mixin reading the same store.",
    "design_ref": "DESIGN.md §4 C23",
    "note": "With auto_reload off any earlier version of that same (namespace, name) is accepted. File edits bump mtime explicitly (os.utime), so mtime granularity cannot flake.",
}

CHECKS["C09"] = {
    "technique": "generated-input search with a deterministic step budget as termination oracle (prefix/sequence enumeration, skeleton and mutation fuzzing, recursive-family enumeration)",
    "text": "(a) every prefix of generated sources, every short sequence of block/branch/end tags, random block skeletons with misplaced branch tags and missing end tags, mutated sources, token soup and pumped lexeme fragments must parse to a template or a LiquidError within a line-event budget linear in the source length (counted with sys.monitoring over liquid/ code); (b) families of 1-3 mutually recursive templates (include, render, render-for, include-for, dynamic include, extends cycles, macro self-call, block.super chains) with the recursive edge under 0..30 nested blocks of 8 kinds must finish within 3e6 line events: with ContextDepthError / TemplateInheritanceError in strict mode (never RecursionError, never a generic error wrapping one), silently in lax mode. Families run through both render APIs; fan-out families (1-3 recursive calls per level) also put the calls inside a block that overrides a base template's block and inside a macro; at block depth <= 3 a depth error that is a converted RecursionError is a failure (the stack was exhausted before the limit counted).",
    "design_ref": "DESIGN.md §4 C09",
    "note": "Termination is observed as 'within budget', never proved. A hang is turned into a budget overrun (the callback raises), so the check itself always finishes.",
}

CHECKS["C20"] = {
    "technique": "generated-input search with a source-text oracle (every reported span must index its template's source at the reported name; error positions checked against an independent line/column walk)",
    "text": "Generated multi-line templates (LF, CRLF, form feed, U+2028, U+0085 and non-ASCII text; liquid tags, nested and bracketed paths, filters, ternaries, macros) with three generated partials (names with dots): every Span of analyze() and of analyze_tags must name a loaded template and index its source at the reported variable root / local / filter / tag name, and Span.line_col must equal an independent computation. Prefixes, mutations, token soup and fixed malformed sources parsed in strict mode: a raised LiquidError must carry a token whose source is the parsed text with start_index inside it, str(error) must not raise, and the reported line:column must match the index and appear in the message.",
    "design_ref": "DESIGN.md §4 C20",
    "note": "A variable whose root is itself a bracketed path ([a.b].c) is located at its opening bracket.",
}

CHECKS["C19"] = {
    "technique": "generated-input search with a dynamic-trace oracle (the render is traced from the harness and every traced read, filter and tag must be in the static report)",
    "text": "Templates that call the same generated partials 2-4 times (include / render, plain, with keyword arguments, with/for ... as name) from under different scopes (for, tablerow, with, capture, macro, for-else, case, after an assign), fully generated templates with two generated partials, and one- or two-node templates; rendered in lax mode (25% asynchronously) with every pool name in the render arguments (and every other word of the sources) while Node.render, Path.evaluate, RenderContext.filter and - for lookups a tag or filter makes on its own - RenderContext.get/get_async/resolve are wrapped by the harness. Every path evaluated must be in analysis.variables (root and static segments), every filter looked up in analysis.filters, every tag node rendered in analysis.tags; a root that resolved from the top-level render arguments, that no active enclosing block binds and that no template assigns anywhere must be in analysis.globals.",
    "design_ref": "DESIGN.md §4 C19",
    "note": "No repository hook is needed: the trace is taken by wrapping library methods in the harness process. Dynamic partial names and translation tags/filters are outside the generated domain (stated in the evidence). The globals clause is applied conservatively: a name assigned anywhere in any template is exempt.",
}

CHECKS["C11"] = {
    "technique": "metamorphic testing (delimiter rewrite of generated templates) and model-based history testing (interleaved environments vs each environment's own operations alone)",
    "text": "(a) Generated templates with a generated partial and template comments are written with placeholder delimiters and instantiated with two delimiter sets (default or random vs random: strings of 1-4 characters over punctuation, regex metacharacters and letters, incl. the liquid-tag comment marker derived from the comment delimiter); unless an occurrence scan finds a collision, both environments must give the same result. A derived relation renders text that looks like default delimiters under custom delimiters. (b) Histories of 5-18 operations (create, parse into a slot, render a slot, add a filter, add a tag) over 2-4 environments differing in delimiters, tolerance, extra tags and registered tags/filters must give every environment the results its own operations give alone (every sixteenth history in a pristine forked process, the others in-process with memo caches cleared and a unique nonce in every source). Environments also differ in undefined type and strict_filters, may be the implicit ones of liquid.Template(), and may use delimiter sets one character-move apart (47 boundary-shifted siblings, compared with a pristine process); 300 enumerated pair histories use two environments one setting apart in turn.",
    "design_ref": "DESIGN.md §4 C11",
    "note": "Collision is decided by scanning the final source for delimiter occurrences outside their placements, which also rejects delimiter strings that contain one another.",
}

NOT_APPLICABLE = [
    {"property_id": p, "reason": "check not built yet in this round (work in progress; see DESIGN.md §4 for the planned oracle)"}
    for p in ALL
    if p not in CHECKS
]

ENGINES[0]["serves_properties"] = sorted(CHECKS)
