"""Normalised outcomes of parsing and rendering."""

from __future__ import annotations

import asyncio
import traceback
import warnings
from typing import Any
from typing import Callable
from typing import Optional

_LOOP: Optional[asyncio.AbstractEventLoop] = None


def loop() -> asyncio.AbstractEventLoop:
    """One long-lived event loop per process."""
    global _LOOP  # noqa: PLW0603
    if _LOOP is None or _LOOP.is_closed():
        _LOOP = asyncio.new_event_loop()
    return _LOOP


def run_async(coro: Any) -> Any:
    return loop().run_until_complete(coro)


def innermost_liquid_frame(err: BaseException) -> str:
    tb = traceback.extract_tb(err.__traceback__)
    for fr in reversed(tb):
        fn = fr.filename.replace("\\", "/")
        if "/liquid/" in fn and "/verif/" not in fn:
            return f"{fn.split('/liquid/', 1)[1]}:{fr.name}"
    if tb:
        fr = tb[-1]
        return f"<outside>:{fr.name}"
    return "<no-tb>"


def outcome_of(fn: Callable[[], Any]) -> tuple:
    """("ok", value) | ("liquid", ClassName) | ("crash", TypeName, frame, msg)."""
    from liquid.exceptions import LiquidError

    try:
        return ("ok", fn())
    except LiquidError as err:
        return ("liquid", type(err).__name__, err)
    except RecursionError as err:
        return ("crash", "RecursionError", innermost_liquid_frame(err), "")
    except Exception as err:  # noqa: BLE001
        return ("crash", type(err).__name__, innermost_liquid_frame(err), str(err)[:200])


def outcome_async(make_coro: Callable[[], Any]) -> tuple:
    return outcome_of(lambda: run_async(make_coro()))


def api_of(case: Any) -> str:
    """Which of the two render APIs a case goes through: its own "api" field, else one case in three (by content) is async."""
    import json
    import zlib

    if isinstance(case, dict) and case.get("api") in ("sync", "async"):
        return case["api"]
    text = json.dumps(case, sort_keys=True, ensure_ascii=True, default=repr)
    return "async" if zlib.crc32(text.encode()) % 3 == 0 else "sync"


def render(case: Any, make_template: Callable[[], Any], **data: Any) -> tuple:
    """Outcome of rendering through the API the case is assigned to (the properties speak of renders, not of one API)."""
    if api_of(case) == "async":
        return outcome_async(lambda: make_template().render_async(**data))
    return outcome_of(lambda: make_template().render(**data))


def short(o: tuple) -> tuple:
    """Comparable form of an outcome (drops exception objects/messages)."""
    if o[0] == "ok":
        return o
    if o[0] == "liquid":
        return ("liquid", o[1])
    return ("crash", o[1], o[2])


def with_warnings(fn: Callable[[], Any]) -> tuple[Any, list]:
    with warnings.catch_warnings(record=True) as rec:
        warnings.simplefilter("always")
        res = fn()
    return res, list(rec)


def has_recursion_cause(err: BaseException) -> bool:
    seen = set()
    e: Optional[BaseException] = err
    while e is not None and id(e) not in seen:
        seen.add(id(e))
        if isinstance(e, RecursionError):
            return True
        e = e.__cause__ or e.__context__
    return False
