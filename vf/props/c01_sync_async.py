"""C01 - synchronous and asynchronous APIs behave identically (differential)."""

from __future__ import annotations

from hypothesis import strategies as st

from .. import core
from .. import envs
from .. import outcome as oc
from ..core import Verdict
from ..gen import data as gd
from ..gen import grammar as gg

import re

_ADDR = re.compile(r" at 0x[0-9a-f]+")  # nodes without __str__ print their address

PID = "C01"
SHARDS = {"quick": 8, "thorough": 16}

PARTIAL_NAMES = ["p1", "p2.liquid", "dir/p3.liquid", "dir/sub/p4"]
ASYNC_KINDS = {"out", "echo", "assign", "if", "unless", "case", "for", "tablerow", "include", "render", "call", "with", "cycle", "capture", "ifchanged", "liquid", "extends", "block"}


def _profile(cfg: dict, partial: str = "") -> gg.Profile:
    nodes = list(gg.STD_NODES)
    filters = sorted(gg.FILTER_ARGS) + ["twice"]
    if cfg.get("extra"):
        nodes += gg.EXTRA_NODES
        filters += ["index", "json", "sort_numeric", "t"]
    flags = cfg.get("flags") or {}
    # 'date' depends on the local clock only for now/today inputs (never generated)
    return gg.Profile(
        nodes=nodes,
        depth=2 if partial else 3,
        width=3 if partial else 4,
        filters=filters,
        extra_filters=bool(cfg.get("extra")),
        partials=[] if partial else PARTIAL_NAMES + ["missing"],
        ternary=bool(flags.get("ternary_expressions")),
        logical_not=bool(flags.get("logical_not_operator")),
        parens=bool(flags.get("logical_parentheses")),
        bracket_roots=True,
        in_partial=partial,
        hostile_args=True,
    )


@st.composite
def cases(draw):
    r = core.rng(draw)
    cfg = envs.gen_cfg(r, loaders=("dict", "dict", "choice", "fs", "cdict", "cchoice", "cfs"))
    parts = {}
    for name in PARTIAL_NAMES:
        g = gg.Gen(r, _profile(cfg, partial="render"))
        parts[name] = g.template()
    if cfg.get("extra") and r.random() < 0.3:
        # an inheritance chain: main extends base
        parts["base"] = [
            {"k": "text", "v": "B:"},
            {"k": "block", "name": "c", "body": gg.Gen(r, _profile(cfg, "render")).block(1)},
            {"k": "block", "name": "d", "body": [{"k": "out", "e": {"k": "filt", "left": {"k": "path", "segs": [{"s": "x"}]}, "filters": []}, "ws": None}]},
        ]
    g = gg.Gen(r, _profile(cfg))
    main = g.template()
    if r.random() < 0.12:
        # binding family: partial tags whose bound variable, alias and keyword arguments draw on three names,
        # in front of partials that print exactly those names and the name the partial itself is bound to
        pool = r.sample(gg.NAMES, 3)
        out = lambda nm: {"k": "out", "e": {"k": "filt", "left": {"k": "path", "segs": [{"s": nm}]}, "filters": []}, "ws": None}  # noqa: E731
        for name in PARTIAL_NAMES:
            stem = name.split("/")[-1].split(".")[0]
            parts[name] = [x for nm in pool + [stem] for x in (out(nm), {"k": "text", "v": "|"})] + parts[name][:1]
        tags = []
        for _ in range(r.randint(1, 3)):
            t = g._partial(r.choice(["include", "include", "render"]))
            t["?bind"] = {"kw": r.choice(["with", "for"]), "e": {"k": "path", "segs": [{"s": r.choice(pool)}]}, "?as": r.choice(pool + [None, None])}
            t["args"] = [{"kw": k, "v": g.argp() if r.random() < 0.6 else {"k": "path", "segs": [{"s": r.choice(pool)}]}} for k in r.sample(pool, r.randint(1, 2))]
            tags.append(t)
        main = tags + main[:1]
    if "base" in parts and r.random() < 0.8:
        sup = {"k": "out", "e": {"k": "filt", "left": {"k": "path", "segs": [{"s": "block"}, {"s": "super"}]}, "filters": []}, "ws": None}
        main = [{"k": "extends", "name": "base"}, {"k": "block", "name": "c", "body": [sup] + g.block(1)}] + main[:1]
    data = gd.DataGen(r, hostile=r.random() < 0.3).data()
    data["pname"] = r.choice(PARTIAL_NAMES + ["missing"])
    if cfg.get("ns"):
        data["ns"] = r.choice(["u1", "u2"])
    case = {"cfg": cfg, "main": main, "partials": parts, "data": data, "order": r.choice(["sync-first", "async-first"])}
    if r.random() < 0.15 and main and main[0].get("k") != "extends":
        case["snippet"] = gg.Gen(r, _profile(cfg, partial="render")).block(1)
    return case


def _sources(case) -> tuple[str, dict]:
    src = gg.to_source(case["main"])
    if case.get("snippet") is not None:
        # an inline snippet (opt-in tag) defined and rendered by name, with and without arguments
        body = gg.to_source(case["snippet"])
        src = "{% snippet sn %}" + body + "{% endsnippet %}{% render sn %}|{% render sn, x: 1 %}|" + src
    return src, {n: gg.to_source(a) for n, a in case["partials"].items()}


def _analysis_norm(a) -> tuple:
    def vmap(m):
        return sorted((k, sorted((str(v), v.span.template_name, v.span.index) for v in vs)) for k, vs in m.items())

    def smap(m):
        return sorted((k, sorted((s.template_name, s.index) for s in ss)) for k, ss in m.items())

    return (vmap(a.variables), vmap(a.globals), vmap(a.locals), smap(a.filters), smap(a.tags))


def _tags_norm(a) -> tuple:
    def smap(m):
        return sorted((k, sorted((s.template_name, s.index) for s in ss)) for k, ss in m.items())

    return (smap(a.all_tags), smap(a.tags), smap(a.unclosed_tags), smap(a.unexpected_tags), smap(a.unknown_tags))


def _cmp(v: Verdict, clause: str, s: tuple, a: tuple) -> None:
    ss, sa = oc.short(s), oc.short(a)
    if ss == sa:
        if ss[0] == "crash":
            v.labels.append("both-crash(C02 scope)")
        return
    detail = f"{clause}: sync={ss!r:.300} async={sa!r:.300}"
    if ss[0] == "ok" and sa[0] == "ok":
        v.fail(f"{clause}:value-differs", detail)
    elif sa[0] == "crash" and ss[0] != "crash":
        v.fail(f"async-only-crash:{_cls(sa)}", detail)
    elif ss[0] == "crash" and sa[0] != "crash":
        v.fail(f"sync-only-crash:{_cls(ss)}", detail)
    elif ss[0] == "crash" and sa[0] == "crash" and ss[1] == sa[1]:
        # same exception type from the twin functions (C02 scope)
        v.labels.append("both-crash(C02 scope)")
    else:
        v.fail(f"{clause}:{_cls(ss)}|{_cls(sa)}", detail)


def _cls(o: tuple) -> str:
    if o[0] == "ok":
        return "ok"
    if o[0] == "liquid":
        return o[1]
    return f"{o[1]}@{o[2]}"


def evaluate(case) -> Verdict:
    v = Verdict()
    cfg = case["cfg"]
    src, psrc = _sources(case)
    data = gd.decode(case["data"])
    kinds = gg.kinds(case["main"])
    scratches = []
    # one directory tree per case, shared by all environments of the case, so
    # that reported paths are comparable
    shared = envs.Scratch() if envs.needs_scratch(cfg) else None
    if shared:
        scratches.append(shared)

    def env_():
        e = envs.make_env(cfg, psrc, shared)
        if case.get("snippet") is not None:
            from liquid.extra import SnippetTag

            e.add_tag(SnippetTag)
        return e

    try:
        # (1) render: separately constructed, identical environments
        e1, e2 = env_(), env_()
        p1 = oc.outcome_of(lambda: e1.from_string(src, name="main"))
        if p1[0] != "ok":
            v.labels.append("parse-error")
            return v
        t1 = p1[1]
        t2 = e2.from_string(src, name="main")
        s = oc.outcome_of(lambda: t1.render(**data))
        a = oc.outcome_async(lambda: t2.render_async(**data))
        _cmp(v, "render", s, a)
        v.labels.append("render:" + s[0])
        # shared-environment variant (how applications use it)
        e3 = env_()
        t3 = e3.from_string(src, name="main")
        if case.get("order") == "async-first":
            a3 = oc.outcome_async(lambda: t3.render_async(**data))
            s3 = oc.outcome_of(lambda: t3.render(**data))
        else:
            s3 = oc.outcome_of(lambda: t3.render(**data))
            a3 = oc.outcome_async(lambda: t3.render_async(**data))
        _cmp(v, "render-shared", s3, a3)

        # (2) loading
        e4, e5 = env_(), env_()
        kw = {"ns": data["ns"]} if cfg.get("ns") and "ns" in data and case.get("order") == "sync-first" else {}
        for name in [*PARTIAL_NAMES, "missing"]:
            g = {"gx": 1} if name.startswith("p") else None

            def summ(t):
                return (t.name, _ADDR.sub("", str(t)), str(t.path), sorted(t.globals.items(), key=repr), sorted((t.matter or {}).items()))

            ls = oc.outcome_of(lambda: summ(e4.get_template(name, globals=g, **kw)))
            la = oc.outcome_async(lambda: _summ_async(e5, name, g, kw, summ))
            _cmp(v, "load", ls, la)
            # a second request (a cache hit for caching loaders) with other globals
            g2 = {"gx": 2, "x": "from-globals"} if g else {"gy": 3}
            ls2 = oc.outcome_of(lambda: summ(e4.get_template(name, globals=g2, **kw)))
            la2 = oc.outcome_async(lambda: _summ_async(e5, name, g2, kw, summ))
            _cmp(v, "load-again", ls2, la2)
            if ls[0] == "ok" and la[0] == "ok":
                rs = oc.outcome_of(lambda: e4.get_template(name, globals=g, **kw).render(**data))
                ra = oc.outcome_async(lambda: _render_loaded_async(e5, name, g, kw, data))
                _cmp(v, "load-render", rs, ra)

        # (3) static analysis
        e6, e7 = env_(), env_()
        t6 = e6.from_string(src, name="main", globals={"pname": data.get("pname")})
        t7 = e7.from_string(src, name="main", globals={"pname": data.get("pname")})
        an_s = oc.outcome_of(lambda: _analysis_norm(t6.analyze()))
        an_a = oc.outcome_async(lambda: _analyze_async(t7))
        _cmp(v, "analyze", an_s, an_a)
        an_s0 = oc.outcome_of(lambda: _analysis_norm(t6.analyze(include_partials=False)))
        an_a0 = oc.outcome_async(lambda: _analyze_async(t7, include_partials=False))
        _cmp(v, "analyze-without-partials", an_s0, an_a0)
        for name in PARTIAL_NAMES[:2] + ["missing"]:
            ts = oc.outcome_of(lambda: _tags_norm(e6.analyze_tags(name)))
            ta = oc.outcome_async(lambda: _tags_async(e7, name))
            _cmp(v, "analyze_tags", ts, ta)
    finally:
        for sc in scratches:
            sc.close()

    v.nontrivial = bool(kinds & ASYNC_KINDS)
    for k in sorted(kinds & {"include", "render", "extends", "call", "for", "case", "if"}):
        v.labels.append("has:" + k)
    v.labels.append("loader:" + cfg.get("loader", "dict") + ("+ns" if cfg.get("ns") else ""))
    v.labels.append("mode:" + cfg.get("mode", "strict"))
    return v


async def _summ_async(env, name, g, kw, summ):
    return summ(await env.get_template_async(name, globals=g, **kw))


async def _render_loaded_async(env, name, g, kw, data):
    t = await env.get_template_async(name, globals=g, **kw)
    return await t.render_async(**data)


async def _analyze_async(t, include_partials: bool = True):
    return _analysis_norm(await t.analyze_async(include_partials=include_partials))


async def _tags_async(env, name):
    return _tags_norm(await env.analyze_tags_async(name))


def campaign(ctx: core.Ctx, tier: str, shard: int, nshards: int) -> None:
    total = 3000 if tier == "quick" else 60000
    core.drive(cases(), ctx.run, n=max(1, total // nshards), seed=core.sub_seed(ctx.seed, shard))


def finish_kwargs(ctx: core.Ctx, tier: str) -> dict:
    return {
        "rule": (
            "Random templates over all standard (+extra when enabled) tags/filters with 4 partials "
            "(names with directories and suffixes), JSON-like data, random env flags/tolerance/undefined "
            "type, dict/choice/file-system loaders and their caching variants with/without namespace. "
            "Each case compares sync vs async for render (separate and shared environments), "
            "get_template (name, source, path, globals, matter, render), analyze (with and without partials) and "
            "analyze_tags; 15% of the templates define and render an inline snippet (opt-in snippet tag). "
            "Non-trivial = the template parses and contains a construct with a separately written async "
            "path; distinct by hash of the whole case."
        ),
        "assumptions": [
            "objects with __getitem_async__ (async-only by design) are outside the data domain",
            "a non-Liquid crash raised identically on both paths is C02's business and only counted here",
        ],
    }
