"""C02 - only Liquid errors escape parsing and rendering.

Validity oracle: from_string / render / render_async return or raise a
LiquidError subclass.  Failures are bucketed by (exception type, innermost
frame inside liquid/), i.e. by call site, so root causes are enumerated.
"""

from __future__ import annotations

import itertools

from hypothesis import strategies as st

from .. import core
from .. import envs
from .. import outcome as oc
from ..core import Verdict
from ..gen import data as gd
from ..gen import grammar as gg
from ..gen import mutate as gm

PID = "C02"
SHARDS = {"quick": 8, "thorough": 16}

T = gd.tagged
UNDEF = {"$": "undef"}
POOL = [
    None, True, False, 0, 1, -1, 2, 7, 2**31, 2**63, -(2**63) - 1, T("pow10", n=30), T("pow10", n=4400),
    T("pow10", n=-4400), 0.0, T("float", v="-0.0"), 1.5, -2.5, T("float", v="1e308"), T("float", v="inf"),
    T("float", v="-inf"), T("float", v="nan"), "", " ", "a", "abc def", "1", "-3", "2.5", "1e3", "nan", "inf",
    "1e999", "%", "100% sure", "%(a)s %s", "=====", "YWJj", "/w==", "é", "<b>&", "a,b", "%Y-%m", "USD",
    [], [1, 2, 3], ["b", "a", "B"], [1, "a", None], [[1, 2], [3]], [{"a": 1}, {"a": 2}], [{"a": "x"}, 3],
    {}, {"a": 1}, {"a": {"b": [1]}}, T("range", a=1, b=3), T("range", a=0, b=-1), T("range", a=1, b=2000), UNDEF,
]
MODES = ["strict", "warn", "lax"]

TAG_SHAPES = [
    "{% for i in items limit: «1» offset: «2» %}{{ i }}{% endfor %}",
    "{% for i in items offset: «1» limit: «2» reversed %}{{ i }}{% else %}e{% endfor %}",
    "{% for i in «1» %}{{ i }}{{ forloop.index }}{% endfor %}",
    "{% for i in «1» limit: «2» %}{{ i }}{% endfor %}{% for i in «1» offset: continue %}{{ i }}{% endfor %}",
    "{% for i in («1»..«2») %}{{ i }}{% endfor %}",
    "{{ («1»..«2») | join: ',' }}",
    "{% tablerow i in items cols: «1» limit: «2» %}{{ i }}{% endtablerow %}",
    "{% tablerow i in «1» offset: «2» %}{{ i }}{{ tablerowloop.col }}{% endtablerow %}",
    "{% cycle «1»: 1, 2 %}{% cycle «1»: 1, 2 %}",
    "{% cycle «1», «2» %}{% cycle «1», «2» %}",
    "{% case «1» %}{% when «2» %}a{% when 1, 'a' or nil %}b{% else %}c{% endcase %}",
    "{% if «1» == «2» %}t{% else %}f{% endif %}",
    "{% if «1» != «2» %}t{% else %}f{% endif %}",
    "{% if «1» < «2» %}t{% else %}f{% endif %}",
    "{% if «1» >= «2» %}t{% else %}f{% endif %}",
    "{% if «1» contains «2» %}t{% else %}f{% endif %}",
    "{% unless «1» or «2» %}t{% elsif «1» and «2» %}u{% endunless %}",
    "{% if «1» == empty or «2» == blank %}t{% endif %}",
    "{{ items[«1»] }}{{ user[«2»] }}",
    "{{ «1»[«2»] }}",
    "{{ «1».size }}{{ «1».first }}{{ «1».last }}{{ «2».a.b }}",
    "{% include «1» %}",
    "{% include 'p' with «1» %}{% include 'p' for «2» as q %}",
    "{% include 'p', x: «1», y: «2» %}",
    "{% render 'p' with «1» %}{% render 'p' for «2» as q %}",
    "{% render 'p' for «1» %}{% render 'p', x: «2» %}",
    "{{ «1» }}{% echo «2» %}",
    "{% assign q = «1» %}{{ q }}{% capture r %}{{ «2» }}{% endcapture %}{{ r | size }}",
    "{% ifchanged %}{{ «1» }}{% endifchanged %}{% ifchanged %}{{ «2» }}{% endifchanged %}",
    "{% liquid\nassign q = «1»\necho q\nfor i in «2»\necho i\nendfor\n%}",
    "{{ «1» | default: «2» }}{{ «1» | default: «2», allow_false: true }}",
    "{{ «1» | append: «2» | size }}",
]
EXTRA_TAG_SHAPES = [
    "{% macro m a, b: 1 %}{{ a }}{{ b }}{{ args }}{{ kwargs }}{% endmacro %}{% call m «1», z: «2» %}",
    "{% macro m a %}{{ a | size }}{% endmacro %}{% call m «1», «2», a: «2» %}",
    "{% with a: «1», b: «2» %}{{ a }}{{ b }}{% endwith %}",
    "{% translate count: «1» %}one{% plural %}many {{ count }}{% endtranslate %}",
    "{% translate x: «1», context: «2» %}hi {{ x }} 100%{% endtranslate %}",
    "{% translate x: «1» %}a%{{ x }}{% plural %}%(x)s b{% endtranslate %}",
    "{{ 'hi %(x)s' | t: x: «1» }}{{ «2» | t }}",
    "{{ «1» | t: «2», count: «1», plural: 'many' }}",
    "{{ 'one' | ngettext: 'many', «1» }}{{ 'c' | npgettext: «2», 'many', «1» }}",
    "{{ «1» if «2» else 'x' }}{{ 'y' if «1» }}",
    "{{ «1» if «2» else «1» | upcase || append: «2» }}",
    "{% if not «1» and («2» or «1») %}t{% endif %}",
]


def literal_of(v):
    """Liquid literal text for a pool value, or None if not expressible."""
    if v is None:
        return "nil"
    if v is True:
        return "true"
    if v is False:
        return "false"
    if isinstance(v, int):
        return str(v)
    if isinstance(v, float):
        s = repr(v)
        return s if "e" not in s and "n" not in s else None
    if isinstance(v, str):
        if "'" not in v and "}}" not in v and "%}" not in v:
            return f"'{v}'"
        return None
    if isinstance(v, dict) and v.get("$") == "range":
        return f"({v['a']}..{v['b']})"
    if isinstance(v, dict) and v.get("$") == "pow10":
        n = v["n"]
        return ("1" + "0" * n) if n >= 0 else ("-1" + "0" * (-n))
    return None


def _env(mode: str, partials=None, extra=True, limits=None):
    cfg = {
        "mode": mode,
        "extra": extra,
        "flags": {"ternary_expressions": True, "logical_not_operator": True, "logical_parentheses": True},
    }
    if limits:
        cfg["limits"] = dict(limits)
    return envs.make_env(cfg, partials if partials is not None else {"p": "[{{ p }}{{ q }}{{ x }}{{ forloop.index }}]"})


def _check(v: Verdict, where: str, o: tuple) -> None:
    if o[0] == "crash":
        v.fail(f"crash:{o[1]}@{o[2]}", f"{where}: {o[1]}: {o[3]}")


def _render_both(v: Verdict, env, src: str, data: dict, which: str) -> str:
    p = oc.outcome_of(lambda: env.from_string(src))
    _check(v, "parse", p)
    if p[0] != "ok":
        return "parse:" + p[0]
    t = p[1]
    res = ""
    if which in ("sync", "both"):
        o = oc.outcome_of(lambda: t.render(**data))
        _check(v, "render", o)
        res = o[0]
    if which in ("async", "both"):
        o = oc.outcome_async(lambda: t.render_async(**data))
        _check(v, "render_async", o)
        res = o[0]
    return res


def _bind(values: list, form: str) -> tuple[list, dict]:
    """Expressions and data for pool values, as variables or literals."""
    exprs, data = [], {}
    for i, val in enumerate(values):
        lit = literal_of(val) if form == "lit" else None
        if lit is not None:
            exprs.append(lit)
        else:
            name = f"v{i}"
            exprs.append(name)
            if val != UNDEF:
                data[name] = gd.decode(val)
    return exprs, data


BASE_DATA = {"items": [1, 2, 3, 4], "user": {"a": {"b": 1}, "name": "n"}}


def evaluate(case) -> Verdict:
    v = Verdict()
    kind = case["kind"]
    if kind == "filter":
        exprs, data = _bind([case["left"], *case["args"]], case.get("form", "var"))
        src = "{{ " + exprs[0] + " | " + case["name"]
        parts = list(exprs[1:])
        for k, kv in (case.get("kwargs") or {}).items():
            e2, d2 = _bind([kv], "var")
            data[f"k_{k}"] = d2.get("v0")
            if kv == UNDEF:
                data.pop(f"k_{k}")
            parts.append(f"{k}: k_{k}")
        if parts:
            src += ": " + ", ".join(parts)
        src += " }}"
        env = _env(case["mode"])
        res = _render_both(v, env, src, data, case.get("which", "both"))
        v.nontrivial = not res.startswith("parse")
        classes = [gd.type_class(gd.decode(x)) if x != UNDEF else "undef" for x in [case["left"], *case["args"]]]
        v.key = ["filter", case["name"], classes]
        v.labels.append("filter-cell:" + res)
        v.info = src
    elif kind == "tag":
        exprs, data = _bind(case["vals"], case.get("form", "var"))
        src = case["shape"].replace("«1»", exprs[0]).replace("«2»", exprs[1])
        data = {**BASE_DATA, **data}
        env = _env(case["mode"])
        res = _render_both(v, env, src, data, case.get("which", "both"))
        v.nontrivial = not res.startswith("parse")
        classes = [gd.type_class(gd.decode(x)) if x != UNDEF else "undef" for x in case["vals"]]
        v.key = ["tag", case["shape"], case.get("form"), classes]
        v.labels.append("tag-cell:" + res)
        v.info = src
    elif kind == "tmpl":
        src = gg.to_source(case["main"])
        psrc = {n: gg.to_source(a) for n, a in case["partials"].items()}
        cfg = dict(case["cfg"])
        if cfg.get("mode", "strict") != "strict":
            # generated partials may call themselves (also through a dynamic name); in lax and warn mode the depth
            # error that stops that is suppressed per node, so recursion with fan-out would take 2^30 renders
            # (known finding C09-lax-fanout-*): keep it shallow here
            cfg["limits"] = dict(cfg.get("limits") or {}, context_depth_limit=6)
        env = envs.make_env(cfg, psrc)
        res = _render_both(v, env, src, gd.decode(case["data"]), "both")
        v.nontrivial = res != "" and not res.startswith("parse")
        v.labels.append("template:" + res)
    elif kind == "src":
        env = _env(case["mode"], partials=case.get("partials"), extra=case.get("extra", True), limits=case.get("limits"))
        res = _render_both(v, env, case["src"], gd.decode(case.get("data") or {}), "both")
        v.nontrivial = res != "" and not res.startswith("parse")
        v.labels.append("source:" + res)
    else:
        raise core.HarnessError(f"unknown kind {kind}")
    return v


# ---------------------------------------------------------------------------


def _filter_names() -> list:
    return sorted(_env("strict").filters)


@st.composite
def filter_cells(draw):
    r = core.rng(draw)
    names = _filter_names()
    nargs = r.choice([0, 1, 1, 2, 2, 3])
    kwargs = {}
    if r.random() < 0.12:
        kwargs[r.choice(["allow_false", "count", "plural", "x", "group_separator", "currency_code", "format", "default"])] = r.choice(POOL)
    return {
        "kind": "filter",
        "name": r.choice(names),
        "left": r.choice(POOL),
        "args": [r.choice(POOL) for _ in range(nargs)],
        "kwargs": kwargs,
        "form": r.choice(["var", "var", "lit"]),
        "mode": r.choice(MODES),
    }


@st.composite
def tag_cells(draw):
    r = core.rng(draw)
    return {
        "kind": "tag",
        "shape": r.choice(TAG_SHAPES + EXTRA_TAG_SHAPES),
        "vals": [r.choice(POOL), r.choice(POOL)],
        "form": r.choice(["var", "lit"]),
        "mode": r.choice(MODES),
    }


def _tmpl_profile(cfg) -> gg.Profile:
    nodes = list(gg.STD_NODES)
    filters = sorted(gg.FILTER_ARGS)
    if cfg.get("extra"):
        nodes += gg.EXTRA_NODES
        filters += sorted(gg.EXTRA_FILTER_ARGS)
    flags = cfg.get("flags") or {}
    return gg.Profile(
        nodes=nodes, filters=filters, extra_filters=bool(cfg.get("extra")), partials=["p", "q", "missing"],
        ternary=bool(flags.get("ternary_expressions")), logical_not=bool(flags.get("logical_not_operator")),
        parens=bool(flags.get("logical_parentheses")), bracket_roots=True, hostile_args=True, big_ints=True,
        odd_strings=True,
    )


@st.composite
def templates(draw):
    r = core.rng(draw)
    cfg = envs.gen_cfg(r)
    prof = _tmpl_profile(cfg)
    main = gg.Gen(r, prof).template()
    pp = _tmpl_profile(cfg)
    pp.depth, pp.partials, pp.in_partial = 2, ["q"], "render"
    parts = {"p": gg.Gen(r, pp).template()}
    pp.partials = []
    parts["q"] = gg.Gen(r, pp).block(1)
    data = gd.DataGen(r, hostile=True).data()
    data["pname"] = r.choice(["p", "q", "missing", 1])
    if r.random() < 0.25:
        # a resource limit small enough to be hit part-way through
        cfg["limits"] = {r.choice(["output_stream_limit", "output_stream_limit", "loop_iteration_limit", "local_namespace_limit"]): r.choice([0, 1, 3, 8, 20, 60])}
    return {"kind": "tmpl", "cfg": cfg, "main": main, "partials": parts, "data": data}


@st.composite
def sources(draw):
    r = core.rng(draw)
    m = gm.Mut(r)
    c = r.random()
    if c < 0.45:
        src = m.soup()
    elif c < 0.55:
        src = m.liquid_soup()
    else:
        prof = _tmpl_profile({"extra": True})
        base = gg.to_source(gg.Gen(r, prof).template())
        src, _ = m.mutate(base, r.choice([1, 1, 2, 3]))
    return {"kind": "src", "src": src, "mode": r.choice(MODES), "data": gd.DataGen(r, hostile=True).data()}


def _exhaustive_cells(ctx: core.Ctx, shard: int, nshards: int, tier: str) -> None:
    """Pairwise-complete matrices (thorough): filter x left x arg1, shape x v1 x v2."""
    names = _filter_names()
    idx = 0
    for name in names:
        for li, left in enumerate(POOL):
            for ai, arg in enumerate(POOL):
                idx += 1
                if idx % nshards != shard:
                    continue
                mode = MODES[(li + ai) % 3]
                form = "lit" if (li * 7 + ai) % 3 == 0 else "var"
                extra_arg = [POOL[(li * 3 + ai * 5) % len(POOL)]] if (li + 2 * ai) % 4 == 0 else []
                ctx.run({"kind": "filter", "name": name, "left": left, "args": [arg, *extra_arg], "kwargs": {}, "form": form, "mode": mode})
            idx += 1
            if idx % nshards == shard:
                ctx.run({"kind": "filter", "name": name, "left": left, "args": [], "kwargs": {}, "form": "var", "mode": MODES[li % 3]})
    for shape in TAG_SHAPES + EXTRA_TAG_SHAPES:
        for li, a in enumerate(POOL):
            for ai, b in enumerate(POOL):
                idx += 1
                if idx % nshards != shard:
                    continue
                for form in ("var", "lit"):
                    ctx.run({"kind": "tag", "shape": shape, "vals": [a, b], "form": form, "mode": MODES[(li + ai) % 3]})


PUMPS = [
    ("nested-path", lambda n: "{{ " + "a[" * n + "a" + "]" * n + " }}"),
    ("and-chain", lambda n: "{% if " + " and ".join(["a"] * n) + " %}x{% endif %}"),
    ("or-chain-elsif", lambda n: "{% if a %}{% elsif " + " or ".join(["b"] * n) + " %}x{% endif %}"),
    ("nested-range", lambda n: "{% for i in " + "(" * n + "1..2" + ")" * n + " %}x{% endfor %}"),
    ("nested-group", lambda n: "{% if " + "(" * n + "a" + ")" * n + " %}x{% endif %}"),
    ("not-chain", lambda n: "{% if " + "not " * n + "a %}x{% endif %}"),
    ("filter-chain", lambda n: "{{ a" + " | upcase" * n + " }}"),
    ("dotted-path", lambda n: "{{ a" + ".b" * n + " }}"),
    ("liquid-lines", lambda n: "{% liquid\n" + "echo a\n" * n + "%}"),
    ("when-list", lambda n: "{% case a %}{% when " + ", ".join(["1"] * n) + " %}x{% endcase %}"),
]


def _nest(o: str, c: str, n: int, body: str = "x") -> str:
    return o * n + body + c * n


AFTERMATH_PARTIALS = {
    "p": "[{{ p }}{{ q }}{{ x }}{{ forloop.index }}]",
    "brk": "a{% break %}b",
    "cont": "a{% continue %}b",
    "self": "s{% include 'self' %}",
    "rself": "r{% render 'rself' %}",
    "loopy": "{% for a in (1..2) %}{% include 'brk' %}{% endfor %}",
}
# constructs that fail part-way through and that lax and warn mode carry on after
PROVOKE = [
    _nest("{% for a in (1..2) %}", "{% endfor %}", 27),
    _nest("{% for a in (1..2) %}", "{% endfor %}", 28),
    _nest("{% for a in (1..1) %}", "{% endfor %}", 40),
    _nest("{% tablerow a in (1..2) %}", "{% endtablerow %}", 28),
    _nest("{% for a in (1..2) %}{% tablerow b in (1..1) %}", "{% endtablerow %}{% endfor %}", 14),
    _nest("{% with a: 1 %}", "{% endwith %}", 29),
    _nest("{% with a: 1 %}", "{% endwith %}", 27, "{% for a in (1..2) %}{% for b in (1..2) %}x{% endfor %}{% endfor %}"),
    _nest("{% capture c %}{% for a in (1..2) %}", "{% endfor %}{% endcapture %}", 28),
    "{% for a in (1..3) %}{{ 1 | divided_by: 0 }}{% endfor %}",
    "{% for a in (1..3) %}{% for b in items limit: 'x' %}{% endfor %}{% endfor %}",
    "{% for a in (1..3) %}{% include 'missing' %}{% endfor %}",
    "{% for a in (1..3) %}{% render 'missing' %}{% endfor %}",
    "{% for a in (1..3) %}{% include 'self' %}{% endfor %}",
    "{% for a in (1..3) %}{% render 'rself' %}{% endfor %}",
    "{% tablerow a in (1..3) %}{{ a | nosuch }}{{ 1 | divided_by: 0 }}{% endtablerow %}",
    "{% macro m %}{% for a in (1..2) %}{% call m %}{% endfor %}{% endmacro %}{% call m %}",
    "{% for a in (1..3) %}{% include 'brk' %}{{ 1 | divided_by: 0 }}{% endfor %}",
    "{% for a in (1..2) %}{% capture c %}{{ a | divided_by: 0 }}{% endcapture %}{% endfor %}",
    "{% for a in (1..2) %}{% nosuchtag %}{% endfor %}",
    "{% for a in nosuch.x | bad %}{% endfor %}",
    "{% include 'loopy' %}{% for a in (1..2) %}{% include 'self' %}{% endfor %}",
]
# constructs whose behaviour depends on loop, scope or buffer state that an abandoned construct may have left behind
AFTER = [
    "{% break %}", "{% continue %}", "{% liquid break %}", "{% if true %}{% break %}{% endif %}",
    "{% unless false %}{% continue %}{% endunless %}", "{% case 1 %}{% when 1 %}{% break %}{% endcase %}",
    "{% capture x %}{% continue %}{% endcapture %}", "{% with a: 1 %}{% break %}{% endwith %}",
    "{% include 'brk' %}", "{% include 'cont' %}", "{% render 'brk' %}", "{% include 'loopy' %}",
    "{% for j in (1..2) %}{{ forloop.parentloop.index }}{{ forloop.parentloop.parentloop.length }}{% endfor %}",
    "{{ forloop.index }}{{ tablerowloop.col }}", "{% cycle 1, 2 %}", "{% ifchanged %}x{% endifchanged %}",
    "{% increment a %}{% decrement a %}", "{% tablerow j in (1..2) %}{% break %}{% endtablerow %}",
    "{% else %}", "{% endfor %}", "{% endtablerow %}", "{% call m %}", "{{ block.super }}",
    "{% for j in (1..2) %}{% include 'cont' %}{% endfor %}", "{% include 'p' for items %}",
]


def _aftermath(ctx: core.Ctx, shard: int, nshards: int) -> None:
    """Every tolerated failure followed by every state-sensitive construct, in the three modes."""
    i = 0
    for pro in PROVOKE:
        for aft in AFTER:
            for mode in MODES:
                i += 1
                if i % nshards == shard:
                    ctx.run({"kind": "src", "src": pro + "|" + aft + "|" + aft, "mode": mode, "partials": AFTERMATH_PARTIALS,
                             "data": {"items": [1, 2, 3], "a": 1}})


# a resource limit that is hit at the top level, inside a block, inside a capture or inside a partial, and what runs after it
LIMIT_PROVOKE = [
    ({"output_stream_limit": 5}, "abcdefghij"), ({"output_stream_limit": 5}, "{{ 'abcdefghij' }}"), ({"output_stream_limit": 0}, "x"),
    ({"output_stream_limit": 5}, "{% for a in (1..9) %}ab{% endfor %}"), ({"output_stream_limit": 5}, "{% capture c %}abcdefghij{% endcapture %}{{ c }}"),
    ({"output_stream_limit": 5}, "{% include 'brk' %}{% include 'brk' %}{% include 'brk' %}"), ({"output_stream_limit": 5}, "{% render 'p' %}{% render 'p' %}"),
    ({"output_stream_limit": 5}, "{% ifchanged %}abcdefghij{% endifchanged %}"), ({"output_stream_limit": 5}, "{% tablerow a in (1..3) %}x{% endtablerow %}"),
    ({"output_stream_limit": 7}, "ééééé"), ({"output_stream_limit": 5}, "{% cycle 'abcdefghij' %}"),
    ({"loop_iteration_limit": 3}, "{% for a in (1..5) %}x{% endfor %}"), ({"loop_iteration_limit": 3}, "{% for a in (1..2) %}{% for b in (1..2) %}x{% endfor %}{% endfor %}"),
    ({"loop_iteration_limit": 3}, "{% tablerow a in (1..5) %}x{% endtablerow %}"), ({"loop_iteration_limit": 2}, "{% render 'p' for items %}"),
    ({"local_namespace_limit": 5}, "{% assign v = 'abcdefghij' %}"), ({"local_namespace_limit": 5}, "{% capture v %}abcdefghij{% endcapture %}"),
    ({"local_namespace_limit": 5}, "{% for a in (1..3) %}{% assign v = 'abcdefghij' %}{% endfor %}"), ({"local_namespace_limit": 0}, "{% increment a %}{% assign b = 1 %}"),
]


def _limit_aftermath(ctx: core.Ctx, shard: int, nshards: int) -> None:
    i = 0
    for limits, pro in LIMIT_PROVOKE:
        for aft in ["", "tail{{ a }}", *AFTER[::3]]:
            for mode in MODES:
                i += 1
                if i % nshards == shard:
                    ctx.run({"kind": "src", "src": pro + "|" + aft, "mode": mode, "partials": AFTERMATH_PARTIALS, "limits": limits,
                             "data": {"items": [1, 2, 3], "a": 1}})


def _pumps(ctx: core.Ctx, shard: int, nshards: int, sizes: list) -> None:
    """Deeply nested / very long expressions: recursion in the expression parsers."""
    i = 0
    for name, make in PUMPS:
        for n in sizes:
            for mode in MODES:
                i += 1
                if i % nshards == shard:
                    ctx.run({"kind": "src", "src": make(n), "mode": mode, "data": {"a": {"a": 1, "b": {"b": 2}}, "b": False}})


def _campaign(ctx: core.Ctx, tier: str, shard: int, nshards: int) -> None:
    quick = tier == "quick"
    seed = core.sub_seed(ctx.seed, shard)
    _pumps(ctx, shard, nshards, [200, 1500, 4000] if quick else [200, 1000, 1500, 4000, 20000])
    _aftermath(ctx, shard, nshards)
    _limit_aftermath(ctx, shard, nshards)
    if quick:
        core.drive(filter_cells(), ctx.run, n=14000 // nshards, seed=seed)
        core.drive(tag_cells(), ctx.run, n=8000 // nshards, seed=seed + 1)
    else:
        _exhaustive_cells(ctx, shard, nshards, tier)
        core.drive(filter_cells(), ctx.run, n=60000 // nshards, seed=seed)
    core.drive(templates(), ctx.run, n=(2000 if quick else 24000) // nshards, seed=seed + 2)
    core.drive(sources(), ctx.run, n=(3000 if quick else 40000) // nshards, seed=seed + 3)


def campaign(ctx: core.Ctx, tier: str, shard: int, nshards: int) -> None:
    _campaign(ctx, tier, shard, nshards)
    if tier == "thorough":
        # coverage-guided stage: one libFuzzer campaign per shard with this module's evaluate() as the in-target oracle
        from .. import fuzz

        fuzz.campaign(ctx, PID, runs=30000, seed=core.sub_seed(ctx.seed, shard, 9))


def _finish_kwargs(ctx: core.Ctx, tier: str) -> dict:
    return {
        "rule": (
            f"(a) filter cells: every registered filter (built-in+extra, {len(_filter_names())}) x left value x "
            f"0-3 args from a {len(POOL)}-value typed pool, as variables and literals "
            + ("(sampled)" if tier == "quick" else "(pairwise-complete: filter x left x arg1)")
            + f"; (b) {len(TAG_SHAPES) + len(EXTRA_TAG_SHAPES)} tag shapes x pool x pool (limit/offset/cols, ranges, cycle, "
            "case/when, comparisons, indexes, include/render names and bound values, macro args, translate "
            "count); (c) random templates with hostile data; (d) token soup and mutated sources; STRICT, WARN "
            "and LAX, sync and async. Non-trivial = the source parsed and a render was attempted; distinct by "
            "(filter or shape, form, type classes of operands) for cells and by case hash otherwise."
        ),
        "exhaustive": False if tier == "quick" else None,
        "assumptions": [
            "data domain: None, bool, int, float, str, list, dict, range (no custom drops, no bytes)",
            "from_string wraps every Exception raised while parsing in LiquidError by design",
        ],
    }


def finish_kwargs(ctx: core.Ctx, tier: str) -> dict:
    kw = _finish_kwargs(ctx, tier)
    if tier == "thorough":
        from .. import fuzz

        kw["rule"] += fuzz.RULE_NOTE
        kw.setdefault("assumptions", []).append(fuzz.ASSUMPTION)
    return kw
