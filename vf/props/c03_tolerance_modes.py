"""C03 - lax and warn modes suppress errors without changing correct output."""

from __future__ import annotations

import warnings

from hypothesis import strategies as st

from .. import core
from .. import envs
from .. import outcome as oc
from ..core import Verdict
from ..gen import data as gd
from ..gen import grammar as gg
from ..gen import mutate as gm

PID = "C03"
SHARDS = {"quick": 8, "thorough": 16}

PARTIALS = {
    "p": "[{{ p }}{{ x }}]",
    "q": "{% if q %}Q{% endif %}",
    "bad": "{% if %}{{ x | nosuch }}{% endfor %}",
    "base": "B{% block c %}c{% endblock %}{% block r required %}{% endblock %}",
}


# error messages of the parser sites guarded by `env.mode == Mode.STRICT` (deliberate leniency)
LENIENT_MESSAGES = [
    "expected a dot or bracket notation", "expected an identifier, found", "expected a comma separated list of arguments",
    "expected 'reversed', 'offset' or 'limit', found",
]


def _cfg(case, mode: str) -> dict:
    cfg = dict(case["cfg"])
    cfg["mode"] = mode
    return cfg


def _count_errors(env) -> list:
    calls: list = []
    orig = env.error

    def counting(exc, msg=None, token=None):
        calls.append(exc if isinstance(exc, type) else type(exc))
        return orig(exc, msg, token)

    env.error = counting
    return calls


def _lexes(env, src: str) -> bool:
    from liquid.exceptions import LiquidError

    try:
        list(env.tokenizer()(src))
        return True
    except LiquidError:
        return False


def _run(case, mode: str, src: str, data: dict):
    """Parse + render in ``mode``; returns (parse outcome, render outcome, warnings, error() calls)."""
    from liquid.exceptions import LiquidWarning

    env = envs.make_env(_cfg(case, mode), PARTIALS)
    calls = _count_errors(env)
    with warnings.catch_warnings(record=True) as rec:
        warnings.simplefilter("always")
        p = oc.outcome_of(lambda: env.from_string(src, name="main"))
        r = None
        if p[0] == "ok":
            r = oc.render([case.get('api'), src], lambda: p[1], **data)
    warns = [w for w in rec if issubclass(w.category, LiquidWarning)]
    return p, r, warns, calls


def evaluate(case) -> Verdict:
    v = Verdict()
    src = case["src"] if "src" in case else gg.to_source(case["main"])
    nl = case.get("nl")
    if nl:
        # the same template with another line-break convention and some leading blank lines
        src = nl["sep"] * nl["lead"] + src.replace("\n", nl["sep"])
    data = gd.decode(case["data"])
    probe = envs.make_env(_cfg(case, "lax"), PARTIALS)
    if not _lexes(probe, src):
        v.labels.append("lexer-rejects")
        return v

    ps, rs, ws_, _ = _run(case, "strict", src, data)
    pl, rl, wl, _ = _run(case, "lax", src, data)
    pw, rw, ww, cw = _run(case, "warn", src, data)

    # (i) LAX never raises
    for name, o in (("parse", pl), ("render", rl)):
        if o is None:
            continue
        if o[0] == "liquid":
            v.fail(f"lax-raises:{name}:{o[1]}", f"LAX {name} raised {o[1]}: {str(o[2])[:200]}")
        elif o[0] == "crash":
            v.labels.append("crash(C02 scope)")
    if wl:
        v.fail("lax-warns", f"LAX mode emitted {len(wl)} warnings")

    # (ii) WARN behaves like LAX, and reports each suppressed error
    for name, o in (("parse", pw), ("render", rw)):
        if o is None:
            continue
        if o[0] == "liquid":
            v.fail(f"warn-raises:{name}:{o[1]}", f"WARN {name} raised {o[1]}: {str(o[2])[:200]}")
    if pl[0] == "ok" and pw[0] == "ok" and rl is not None and rw is not None and rl[0] == "ok" and rw[0] == "ok":
        if rl[1] != rw[1]:
            v.fail("warn-lax-output-differs", f"lax={rl[1]!r:.200} warn={rw[1]!r:.200}")
    if len(cw) != len(ww):
        v.fail(
            "warn-unreported-error",
            f"{len(cw)} errors were suppressed in WARN mode but {len(ww)} warnings were emitted ({[c.__name__ for c in cw][:5]})",
        )
    strict_ok = ps[0] == "ok" and rs is not None and rs[0] == "ok"
    if ps[0] == "liquid" and pw[0] == "ok" and rw is not None and rw[0] == "ok" and not ww:
        # STRICT refuses the source, WARN accepts it silently: only legitimate at the sites
        # where the parser is deliberately lenient outside strict mode
        msg = str(ps[2]).splitlines()[0] if len(ps) > 2 else ""
        if not any(m in msg for m in LENIENT_MESSAGES):
            v.fail("warn-silent-parse-error", f"STRICT raised {ps[1]}: {msg!r} but WARN parsed and rendered without any warning: {src!r:.300}")
    if ps[0] == "ok" and rs is not None and rs[0] == "liquid" and pw[0] == "ok" and rw is not None and rw[0] == "ok":
        # a render-time error in strict mode happens identically in warn mode and must be reported
        if not ww:
            v.fail("warn-silent-render-error", f"STRICT render raised {rs[1]} but WARN emitted no warning")

    # (iii) a strict-clean template renders identically in lax and warn, without warnings
    if strict_ok:
        if ws_:
            v.fail("strict-warns", f"STRICT mode emitted {len(ws_)} warnings")
        for name, o in (("lax", rl), ("warn", rw)):
            if o is None or o[0] != "ok":
                v.fail(f"strict-ok-but-{name}-fails", f"strict ok, {name}: {oc.short(o) if o else None}")
            elif o[1] != rs[1]:
                v.fail(f"strict-{name}-output-differs", f"strict={rs[1]!r:.200} {name}={o[1]!r:.200}")
        if ww:
            v.fail("warn-warns-on-clean-template", f"{len(ww)} warnings: {str(ww[0].message)[:200]}")

    ntags = src.count("{%")
    if strict_ok:
        v.nontrivial = ntags >= 2
        v.labels.append("strict-ok")
    else:
        v.nontrivial = bool(case.get("mutations"))
        v.labels.append("strict-fails:" + ("parse" if ps[0] != "ok" else "render"))
        if ww:
            v.labels.append("warn-warned")
    return v


def _profile(cfg) -> gg.Profile:
    nodes = list(gg.STD_NODES)
    filters = sorted(gg.FILTER_ARGS)
    if cfg.get("extra"):
        nodes += gg.EXTRA_NODES
    flags = cfg.get("flags") or {}
    return gg.Profile(
        nodes=nodes, filters=filters, partials=["p", "q", "bad", "missing"],
        ternary=bool(flags.get("ternary_expressions")), logical_not=bool(flags.get("logical_not_operator")),
        parens=bool(flags.get("logical_parentheses")), bracket_roots=True, hostile_args=True,
    )


@st.composite
def cases(draw):
    r = core.rng(draw)
    cfg = envs.gen_cfg(r)
    cfg.pop("mode", None)
    if r.random() < 0.15:
        cfg["limits"] = {"block_nesting_limit": r.choice([0, 1, 2])}
    data = gd.DataGen(r, hostile=r.random() < 0.2).data()
    data["pname"] = r.choice(["p", "q", "missing"])
    m = gm.Mut(r)
    c = r.random()
    nl = {"sep": r.choice(NL_SEPS), "lead": r.randint(0, 12)} if r.random() < 0.15 else None
    if c < 0.35:
        return {"cfg": cfg, "main": gg.Gen(r, _profile(cfg)).template(), "data": data, "mutations": [], "nl": nl}
    if c < 0.8:
        base = gg.to_source(gg.Gen(r, _profile(cfg)).template())
        src, ops = m.mutate(base, r.choice([1, 1, 2, 3]))
        return {"cfg": cfg, "src": src, "data": data, "mutations": ops, "nl": nl}
    src = m.soup() if r.random() < 0.8 else m.liquid_soup()
    return {"cfg": cfg, "src": src, "data": data, "mutations": ["soup"], "nl": nl}


NL_SEPS = ["\r\n", "\r\n", "\r", "\u2028", "\x0c\n", "\n\r"]


# a malformed expression placed in exactly one tag position of an otherwise valid template
HOLES = [
    "{% if «X» %}a{% else %}b{% endif %}z", "{% if false %}a{% elsif «X» %}b{% else %}c{% endif %}z",
    "{% if false %}a{% elsif false %}b{% elsif «X» %}c{% endif %}z", "{% unless «X» %}a{% endunless %}z",
    "{% unless true %}a{% elsif «X» %}b{% else %}c{% endunless %}z", "{% case «X» %}{% when 1 %}a{% endcase %}z",
    "{% case 1 %}{% when «X» %}a{% else %}b{% endcase %}z", "{% for i in «X» %}a{% endfor %}z", "{% for «X» %}a{% endfor %}z",
    "{% for i in items limit: «X» %}a{% endfor %}z", "{% tablerow i in «X» %}a{% endtablerow %}z",
    "{% assign v = «X» %}z", "{% assign «X» %}z", "{% echo «X» %}z", "{{ «X» }}z", "{% capture «X» %}a{% endcapture %}z",
    "{% cycle «X» %}z", "{% include «X» %}z", "{% render «X» %}z", "{% render 'p', x: «X» %}z", "{% include 'p' with «X» %}z",
    "{% increment «X» %}z", "{% with a: «X» %}a{% endwith %}z", "{% macro m «X» %}a{% endmacro %}z", "{% call m «X» %}z",
    "{% liquid\nif «X»\necho 'a'\nendif\n%}z", "{% liquid\nassign v = «X»\necho v\n%}z", "{% liquid\nfor i in «X»\necho i\nendfor\n%}z",
    "{% for i in items %}{% if «X» %}a{% endif %}{% endfor %}z", "{% capture c %}{% if true %}{% elsif «X» %}{% endif %}{% endcapture %}z",
    "{% translate x: «X» %}a{% endtranslate %}z", "{% block «X» %}a{% endblock %}z", "{{ a | append: «X» }}z", "{{ a | «X» }}z",
    "{{ 'a' if «X» else 'b' }}z", "{% ifchanged «X» %}a{% endifchanged %}z",
]
BAD_EXPRS = ["1 ~= 2", "a ==", "== a", "a b c", "", "(1..", "a |", "1 2", "a,,b", "a[", "'unclosed", "a.", "&", "a == == b", "a: b: c", "not", "(a", ")",
             # well-formed expressions of the wrong kind for the position (an assignment to something that is not a name, a
             # bracketed or nested path where an identifier is expected, a trailing question mark)
             "[x] = 1", "[x.y] = 'z'", "['x'] = 1", "a.b = 1", "a[0] = 1", "x? = 1", "1 = 1", "nil = 1", "[[x]] = 1", "[x]", "a[b[c]].d?", "x?.y", "a-b = 1", "[x][y] = 2"]


def valid_variants():
    """Valid templates that spell tag arguments in every accepted way (order, commas, trailing commas).

    The strict-only checks in the argument parsers have a lenient twin in lax and warn mode; a template that
    strict mode accepts must render the same in all three.
    """
    import itertools

    loop_args = ["limit: 2", "offset: 1", "reversed"]
    for tag, end, extra_arg in (("for", "endfor", None), ("tablerow", "endtablerow", "cols: 2")):
        pool = loop_args + ([extra_arg] if extra_arg else [])
        for n in range(0, len(pool) + 1):
            for args in itertools.permutations(pool, n):
                for lead, sep, trail in itertools.product(["", ","], [" ", ", ", " , "], ["", ","]):
                    if not args and (lead or trail):
                        continue
                    yield "{% " + tag + " i in items" + lead + " " + sep.join(args) + trail + " %}{{ i }};{% " + end + " %}z"
    kw = ["a: 1", "b: 'x'", "c: items"]
    for tag in ("include", "render"):
        for n in range(0, 4):
            for args in itertools.permutations(kw, n):
                for lead, sep, trail in itertools.product([",", ""], [", ", " , ", " "], ["", ","]):
                    if not args and trail:
                        continue
                    yield "{% " + tag + " 'p'" + (lead + " " if args else "") + sep.join(args) + trail + " %}z"
        for bind in ("with items[0]", "for items", "with items[0] as k", "for items as k"):
            for tail in ("", ", a: 1", ", a: 1, b: 2", " a: 1"):
                yield "{% " + tag + " 'p' " + bind + tail + " %}z"
    for args in itertools.permutations(["1", "'x'", "a"], 3):
        for sep in (", ", ",", " , "):
            yield "{% cycle " + sep.join(args) + " %}{% cycle 'g': " + sep.join(args) + " %}z"
    for vals in itertools.permutations(["1", "'x'", "a", "2"], 3):
        for sep in (", ", " or ", ",", " , "):
            yield "{% case a %}{% when " + sep.join(vals) + " %}hit{% else %}miss{% endcase %}z"
    for f in ("replace: 'a', 'b'", "replace: 'a' , 'b'", "slice: 0, 2", "slice: 0,2", "default: 'd', allow_false: true", "default: 'd' , allow_false: true", "truncate: 5, '..'"):
        yield "{{ a | " + f + " }}z"
        yield "{% assign v = a | " + f + " %}{{ v }}z"
        yield "{% echo a | " + f + " | upcase %}z"


def _campaign(ctx: core.Ctx, tier: str, shard: int, nshards: int) -> None:
    idx = 0
    vcfg = {"undefined": "default", "autoescape": False, "strict_filters": True, "extra": True, "loader": "dict", "ns": False, "flags": {}}
    for src in valid_variants():
        idx += 1
        if idx % nshards == shard:
            ctx.run({"cfg": vcfg, "src": src, "data": {"items": [1, 2, 3, 4], "a": "x"}, "mutations": ["argument-variant"]}, enumerated=True)
    base_cfg = {"undefined": "default", "autoescape": False, "strict_filters": True, "extra": True, "loader": "dict", "ns": False,
                "flags": {"ternary_expressions": True, "logical_not_operator": True, "logical_parentheses": True}}
    for hole in HOLES:
        for bad in BAD_EXPRS:
            idx += 1
            if idx % nshards == shard:
                ctx.run({"cfg": base_cfg, "src": hole.replace("«X»", bad), "data": {"items": [1, 2], "a": "x"}, "mutations": ["hole"]})
                if idx % 3 == 0:
                    sep = NL_SEPS[idx % len(NL_SEPS)]
                    ctx.run({"cfg": base_cfg, "src": hole.replace("«X»", bad), "data": {"items": [1, 2], "a": "x"}, "mutations": ["hole"],
                             "nl": {"sep": sep, "lead": 3 + idx % 9}})
    total = 4000 if tier == "quick" else 80000
    core.drive(cases(), ctx.run, n=max(1, total // nshards), seed=core.sub_seed(ctx.seed, shard))


def campaign(ctx: core.Ctx, tier: str, shard: int, nshards: int) -> None:
    _campaign(ctx, tier, shard, nshards)
    if tier == "thorough":
        # coverage-guided stage: one libFuzzer campaign per shard with this module's evaluate() as the in-target oracle
        from .. import fuzz

        fuzz.campaign(ctx, PID, runs=15000, seed=core.sub_seed(ctx.seed, shard, 9))


def _finish_kwargs(ctx: core.Ctx, tier: str) -> dict:
    return {
        "rule": (
            "Valid generated templates, the same after 1-3 mutation operators (delete/duplicate/swap token, drop "
            "end tag, truncate, orphan else/elsif/when/break/end*, unknown tag, unbalanced delimiter, stray "
            "lexeme), and token soup; a malformed expression in each of 36 tag positions; and 1493 valid templates "
            "spelling the arguments of for, tablerow, include, render, cycle, when and filters in every order with "
            "and without separating, leading and trailing commas; only sources the lexer alone accepts are judged. Each is parsed and "
            "rendered in STRICT, LAX and WARN. Non-trivial = mutated and STRICT fails (clauses i/ii), or STRICT "
            "succeeds with >= 2 tags (clause iii)."
        ),
        "assumptions": [
            "'STRICT fails => WARN warns' is asserted only for render-time errors: several parsers are deliberately lenient outside strict mode",
            "suppressed errors are counted at Environment.error (the single choke point used by parser, Tag.get_node and render_with_context)",
        ],
    }


def finish_kwargs(ctx: core.Ctx, tier: str) -> dict:
    kw = _finish_kwargs(ctx, tier)
    if tier == "thorough":
        from .. import fuzz

        kw["rule"] += fuzz.RULE_NOTE
        kw.setdefault("assumptions", []).append(fuzz.ASSUMPTION)
    return kw
