"""C04 - serialising a template back to source preserves its meaning.

Round trip + idempotence + differential render:  s1 = str(T); T2 = parse(s1)
must succeed; str(T2) == s1; T and T2 render identically on several data sets.
"""

from __future__ import annotations

from hypothesis import strategies as st

from .. import core
from .. import envs
from .. import outcome as oc
from ..core import Verdict
from ..gen import data as gd
from ..gen import grammar as gg

PID = "C04"
SHARDS = {"quick": 8, "thorough": 16}

CFG = {
    "mode": "strict",
    "extra": False,
    "flags": {"logical_not_operator": True, "logical_parentheses": True, "ternary_expressions": True},
    "twice": False,
}
PARTIALS = {"p": "[{{ p }}|{{ x }}|{{ q }}]", "q": "{% assign zz = 1 %}<{{ forloop.index }}{{ q }}>"}

STD = [
    "text", "out", "echo", "assign", "capture", "incr", "decr", "if", "unless", "case", "for", "tablerow",
    "cycle", "ifchanged", "include", "render", "liquid", "comment", "inline_comment", "raw",
]

# constructs kept out of the generator because a listed known finding covers
# them (see known_findings.json); counted in the evidence
EXCLUDED: dict = {"nil": "C04-nil-prints-empty"}


def _profile(excluded=()) -> gg.Profile:
    return gg.Profile(
        nodes=[k for k in STD if k not in excluded],
        partials=["p", "q"],
        ternary=True,
        logical_not=True,
        parens=True,
        bracket_roots=True,
        odd_strings=True,
        grouped_operands=True,
        nil_literal="nil" not in excluded,
        dynamic_partial_names=False,
        filters=[f for f in sorted(gg.FILTER_ARGS) if f != "date"],
    )


def _env():
    return envs.make_env(CFG, PARTIALS)


def _expr_features(x, out: set) -> None:
    if isinstance(x, list):
        for e in x:
            _expr_features(e, out)
        return
    if not isinstance(x, dict):
        return
    k = x.get("k")
    if k == "path":
        segs = x["segs"]
        if segs and "s" not in segs[0]:
            out.add("bracket-root")
        for s in segs[1:]:
            if "q" in s:
                out.add("quoted-segment")
            if "p" in s:
                out.add("nested-path")
    elif k == "str":
        v = x["v"]
        if "\\" in v:
            out.add("str-backslash")
        if "\n" in v:
            out.add("str-newline")
        if "'" in v or '"' in v:
            out.add("str-quote")
    elif k in ("nil", "empty", "blank", "range", "group", "not", "tern", "float"):
        out.add(k)
    elif k in ("and", "or"):
        for side in ("l", "r"):
            if isinstance(x[side], dict) and x[side].get("k") in ("and", "or", "group"):
                out.add("nested-logic")
    for key, val in x.items():
        if key in ("body", "?else", "lines", "elsifs", "whens"):
            continue
        _expr_features(val, out)


PRIORITY = [
    "bracket-root", "str-backslash", "str-newline", "str-quote", "nil", "empty", "blank", "group",
    "nested-logic", "not", "tern", "range", "float", "quoted-segment", "nested-path",
]


def _own_features(node) -> str:
    feats: set = set()
    own = {k: v for k, v in node.items() if k not in ("body", "?else", "lines")}
    if "elsifs" in own:
        own["elsifs"] = [e["cond"] for e in own["elsifs"]]
    if "whens" in own:
        own["whens"] = [w["vals"] for w in own["whens"]]
    _expr_features(own, feats)
    for f in PRIORITY:
        if f in feats:
            return f
    return "plain"


def _children(node) -> list:
    out = []
    for key in ("body", "?else", "lines"):
        if isinstance(node.get(key), list):
            out.extend(node[key])
    for e in node.get("elsifs") or []:
        out.extend(e["body"])
    for w in node.get("whens") or []:
        out.extend(w["body"])
    return out


def _check_nodes(nodes, datas) -> list:
    """Failures (clause, detail) of the round trip for the template ``nodes``."""
    src = gg.to_source(nodes)
    env = _env()
    p = oc.outcome_of(lambda: env.from_string(src))
    if p[0] != "ok":
        return [("unparsed", "")]
    t = p[1]
    s1o = oc.outcome_of(lambda: str(t))
    if s1o[0] != "ok":
        return [("str-raises", f"str(T) raised {oc.short(s1o)} for {src!r:.200}")]
    s1 = s1o[1]
    env2 = _env()
    p2 = oc.outcome_of(lambda: env2.from_string(s1))
    if p2[0] != "ok":
        return [("reparse-fails", f"src={src!r:.200} str={s1!r:.200} error={str(p2[2]).splitlines()[0] if len(p2) > 2 else p2}")]
    t2 = p2[1]
    s2 = str(t2)
    fails = []
    if s2 != s1:
        fails.append(("not-idempotent", f"src={src!r:.160} str1={s1!r:.200} str2={s2!r:.200}"))
    for d in datas:
        a = oc.short(oc.render(src, lambda: t, **d))
        b = oc.short(oc.render(src, lambda: t2, **d))
        if a != b:
            fails.append(("render-differs", f"src={src!r:.160} str={s1!r:.200} orig={a!r:.120} reparsed={b!r:.120}"))
            break
    return fails


def _localise(nodes, datas, clause) -> dict:
    """Smallest single node that alone reproduces ``clause``."""
    for n in nodes:
        f = [c for c, _ in _check_nodes([n], datas)]
        if clause in f:
            sub = _localise(_children(n), datas, clause)
            return sub if sub else n
    return {}


def evaluate(case) -> Verdict:
    v = Verdict()
    nodes = case["main"]
    datas = [gd.decode(d) for d in case["datas"]]
    fails = _check_nodes(nodes, datas)
    if fails and fails[0][0] == "unparsed":
        v.labels.append("unparsed")
        return v
    for clause, detail in fails:
        node = _localise(nodes, datas, clause)
        if node:
            where = f"{node['k']}:{_own_features(node)}"
        else:
            where = "interaction"
        v.fail(f"{clause}:{where}", detail)
    kinds = gg.kinds(nodes)
    feats: set = set()
    _expr_features(nodes, feats)
    for n in gg.walk(nodes):
        _expr_features({k: val for k, val in n.items() if k not in ("body", "?else", "lines")}, feats)
    v.nontrivial = len(list(gg.walk(nodes))) >= 2 and bool(kinds - {"text", "comment", "raw", "inline_comment"})
    v.labels.extend("kind:" + k for k in sorted(kinds))
    v.labels.extend("feat:" + f for f in sorted(feats))
    return v


@st.composite
def cases(draw):
    r = core.rng(draw)
    g = gg.Gen(r, _profile(EXCLUDED))
    main = g.template()
    datas = [gd.DataGen(r).data() for _ in range(3)]
    return {"main": main, "datas": datas}


@st.composite
def expression_cases(draw):
    """One node carrying one big expression: a ternary with a deep condition, ranges and filters side by side.

    (Printing adds clarifying parentheses, so groups meet ranges, filters and ternary parts that the random
    templates combine too rarely; added after the thorough tier found such a combination that would not re-parse.)
    """
    r = core.rng(draw)
    g = gg.Gen(r, _profile(EXCLUDED))

    def operand():
        return g.rangelit() if r.random() < 0.35 else g.argp()

    tern = {
        "k": "tern", "left": {"k": "filt", "left": operand(), "filters": g.filters(2)}, "cond": g.boolean(r.choice([2, 3, 3])),
        "?alt": operand() if r.random() < 0.8 else None, "altf": [], "tail": [],
    }
    if tern["?alt"] is not None and r.random() < 0.4:
        tern["altf"] = g.filters(2) or [g.filter_()]
    if r.random() < 0.4:
        tern["tail"] = g.filters(2) or [g.filter_()]
    c = r.random()
    if c < 0.4:
        node = {"k": "out", "e": tern, "ws": None}
    elif c < 0.6:
        node = {"k": "echo", "e": tern, "ws": None}
    elif c < 0.8:
        node = {"k": "assign", "name": g.name(), "e": tern, "ws": None}
    else:
        node = {"k": "if", "cond": g.boolean(3), "body": [{"k": "out", "e": tern, "ws": None}], "elsifs": [], "?else": None, "ws": None}
    main = [node, {"k": "out", "e": {"k": "filt", "left": g.path(), "filters": []}, "ws": None}]
    return {"main": main, "datas": [gd.DataGen(r).data() for _ in range(2)]}


def campaign(ctx: core.Ctx, tier: str, shard: int, nshards: int) -> None:
    total = 4000 if tier == "quick" else 100000
    core.drive(cases(), ctx.run, n=max(1, total // nshards), seed=core.sub_seed(ctx.seed, shard))
    core.drive(expression_cases(), ctx.run, n=max(1, (3000 if tier == "quick" else 60000) // nshards), seed=core.sub_seed(ctx.seed, shard, 1))


def finish_kwargs(ctx: core.Ctx, tier: str) -> dict:
    ctx.extra["excluded_by_construction"] = sorted(EXCLUDED)
    return {
        "rule": (
            "Random templates over the standard tags (if/elsif/else, unless, case/when, for/else with "
            "limit/offset/reversed, tablerow, capture, assign, echo, cycle with/without group, increment, "
            "decrement, ifchanged, include, render, liquid, comments, raw) with not/parentheses/ternary enabled, "
            "string literals containing quotes, backslashes and newlines, bracketed roots, nested paths, ranges, "
            "filters with positional and keyword arguments and whitespace control; 3 data sets each; plus single-node "
            "templates carrying one large expression (ternary with a condition of depth 2-3, range or primitive "
            "operands, filters on every part). "
            "Non-trivial = >= 2 nodes of which one is not text/comment/raw; classes kind:* and feat:* show which "
            "constructs were exercised. A failure is localised to the smallest single node that reproduces it."
        ),
        "assumptions": ["textual equality of str(T) with the original source is not asserted"],
    }
