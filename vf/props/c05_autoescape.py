"""C05 - autoescape keeps render data from injecting HTML."""

from __future__ import annotations

import re

from hypothesis import strategies as st

from .. import core
from .. import envs
from .. import outcome as oc
from ..core import Verdict
from ..gen import data as gd
from ..gen import grammar as gg

PID = "C05"
SHARDS = {"quick": 8, "thorough": 16}

EXCLUDED_FILTERS = {"safe", "newline_to_br", "script_tag", "stylesheet_tag", "json", "escapejs"}
FILTERS = [f for f in sorted(gg.FILTER_ARGS) if f not in EXCLUDED_FILTERS]
CUTTING = {
    "slice", "truncate", "truncatewords", "split", "remove", "remove_first", "remove_last", "replace",
    "replace_first", "replace_last", "first", "last", "url_decode", "base64_decode", "base64_url_safe_decode",
    "strip_html", "lstrip", "rstrip", "strip", "squish",
}
HOSTILE = [
    "<b>", "</b>", "<script>alert(1)</script>", "a & b", "&amp;", "&lt", "&#39;", "'", '"', "x\"y'z", "<", ">", "&",
    "%3Cb%3E", "PGI+", "<a href='x'>", "1 < 2 > 0", "&amp;lt;", "plain", "", "a,b", "<i>,<u>", "  <p> ",
]
PLAIN = ["plain", "a b", "x,y", "abc", "", "1", "Hello World", "é"]
SAFE_TEXT = ["a", "b", " ", "x", "-", ".", "\n", "1"]
ENTITY = re.compile(r"&(#\d+|#x[0-9a-fA-F]+|\w+);")
PARTIALS = {
    "p": "[{{ p }}|{{ x }}|{% echo q %}]",
    "q": "{% for i in items %}{{ i }}{% endfor %}{{ x | upcase }}",
    "base": "B{% block c %}{{ x }}{% endblock %}",
}
NODES = ["text", "out", "out", "echo", "assign", "capture", "cycle", "for", "if", "case", "liquid", "include", "render", "with"]


def _profile(ternary: bool) -> gg.Profile:
    return gg.Profile(
        nodes=NODES, filters=FILTERS + ["t"], extra_filters=True, partials=["p", "q"], depth=3, width=4,
        text_alphabet=SAFE_TEXT, str_alphabet=["a", "b", " ", "x", "1", ",", "-"], ternary=ternary,
        dynamic_partial_names=False, break_continue=False, max_filters=4, special_literals=False,
        keys=["a", "b", "name", "title", "x"],
    )


def _cfg(auto: bool, ternary: bool) -> dict:
    return {"mode": "lax", "extra": True, "autoescape": auto, "twice": False,
            "flags": {"ternary_expressions": ternary}}


SPECIALS = "<>&'\""


def _has_special(x, depth: int = 0) -> bool:
    if isinstance(x, str):
        return any(ch in x for ch in SPECIALS)
    if depth > 4:
        return False
    if isinstance(x, (list, tuple)):
        return any(_has_special(e, depth + 1) for e in x)
    if isinstance(x, dict):
        return any(_has_special(k, depth + 1) or _has_special(e, depth + 1) for k, e in x.items())
    return False


class FilterSpy:
    """Wraps a filter; notes whether a special character ever reached or left it."""

    def __init__(self, func, flag: list):
        self._func = func
        self._flag = flag
        for attr in ("with_context", "with_environment", "validate"):
            if hasattr(func, attr):
                setattr(self, attr, getattr(func, attr))

    def __call__(self, left, *args, **kwargs):
        spied = {k: v for k, v in kwargs.items() if k not in ("context", "environment")}
        if _has_special(left) or _has_special(args) or _has_special(spied):
            self._flag.append(1)
        if isinstance(left, (list, tuple, dict)) and _has_special(str(left)):
            # string filters stringify collections with Python's repr, which contains quotes
            self._flag.append(1)
        res = self._func(left, *args, **kwargs)
        if _has_special(res):
            self._flag.append(1)
        return res


def _spy(env) -> list:
    flag: list = []
    for name in list(env.filters):
        env.filters[name] = FilterSpy(env.filters[name], flag)
    return flag


def _filters_used(nodes) -> set:
    return set(re.findall(r'"name": "(\w+)"', core.canon(nodes)))


MEMO_FILTERS = [
    "strip_html", "strip", "lstrip", "rstrip", "strip_newlines", "squish", "upcase", "downcase", "capitalize", "truncate: 999", "truncatewords: 99",
    "default: 'z'", "append: ''", "prepend: ''", "replace: '~', '~'", "remove: '~'", "slice: 0, 999", "url_decode", "escape_once", "date: '%Y'",
    "split: '~' | join: '~'", "split: '~' | first", "base64_encode | base64_decode", "t",
]
MEMO_STRINGS = ["it's", "R&D", "1 < 2", 'say "hi"', "<b>x</b>", "a > b", "&amp; <", "x'y\"z"]


def eval_memo(case) -> Verdict:
    """A filter sees a trusted (Markup) value first, then an equal untrusted string, in the same process.

    Whatever the first call leaves behind (a memo keyed by equality, say) must not make the second output raw.
    """
    from markupsafe import Markup

    v = Verdict()
    f, s = case["filter"], case["s"]
    env = envs.make_env({"mode": "strict", "extra": True, "twice": False, "autoescape": True})
    t = env.from_string("{{ m | " + f + " }}")
    first = oc.outcome_of(lambda: t.render(m=Markup(s)))
    second = oc.outcome_of(lambda: t.render(m=s))
    if second[0] == "ok":
        out = second[1]
        if re.search(r"[<>\"']", out) or re.search(r"&(?!(#\d+|#x[0-9a-fA-F]+|\w+);)", out):
            v.fail(
                f"memo:raw-after-trusted:{f.split(':')[0].split(' ')[0]}",
                f"{{{{ m | {f} }}}}: after rendering with the trusted value Markup({s!r}) (-> {oc.short(first)!r:.80}), the untrusted "
                f"string {s!r} was output raw: {out!r}",
            )
    v.nontrivial = True
    v.labels.append("memo")
    v.key = ["memo", f, s]
    return v


def evaluate(case) -> Verdict:
    if case.get("kind") == "memo":
        return eval_memo(case)
    v = Verdict()
    kind = case["kind"]
    ternary = bool(case.get("ternary"))
    if kind == "safe":
        # (B) explicitly safe values pass through unchanged
        val = case["v"]
        data = {"m": gd.decode(val), "lst": [gd.decode(val)]}
        src = SAFE_SHAPES[case["i"] % len(SAFE_SHAPES)]
        env = envs.make_env(_cfg(True, True), {"p": "{{ x }}"})
        o = oc.render(case, lambda: env.from_string(src), **data)
        raw = val["v"]
        if o[0] != "ok" or raw not in o[1]:
            v.fail(f"safe-value-altered:{val['$']}", f"{src!r} with m={val!r}: {oc.short(o)!r:.200} does not contain {raw!r}")
        v.nontrivial = True
        v.key = ["safe", src, val["$"]]
        v.info = src
        v.labels.append("safe-passthrough")
        return v
    if "src" in case:
        case = dict(case, main=[])  # (a verbatim source: nothing to read filters off)
    src = case["src"] if "src" in case else gg.to_source(case["main"])
    data = gd.decode(case["data"])
    env = envs.make_env(_cfg(True, ternary), PARTIALS)
    p = oc.outcome_of(lambda: env.from_string(src))
    if p[0] != "ok":
        v.labels.append("unparsed")
        return v
    o = oc.render(case, lambda: p[1], **data)
    if o[0] != "ok":
        v.labels.append("render-error")
        return v
    out = o[1]
    used = _filters_used(case["main"]) | _filters_used(case.get("expr") or [])
    if kind == "hostile":
        bad = sorted({c for c in out if c in "<>\"'"})
        if bad:
            # which filter let it through?  re-render with each single output node alone is costly; name the filters
            v.fail(
                "raw-special",
                f"output contains raw {bad!r}: {out!r:.200}\n   src={src!r:.300}\n   data={data!r:.200}",
            )
        cutting = bool(used & CUTTING)
        if not cutting:
            for m in re.finditer("&", out):
                if not ENTITY.match(out, m.start()):
                    v.fail(
                        "bare-ampersand",
                        f"'&' at {m.start()} does not start an entity: {out!r:.200}\n   src={src!r:.300}",
                    )
                    break
            v.labels.append("entity-check-applied")
        special_in = any(ch in core.canon(case["data"]) for ch in "<>&'")
        v.nontrivial = special_in and ("&" in out) and bool(used or "src" in case or gg.kinds(case["main"]) & {"capture", "cycle", "include", "render", "assign"})
        v.labels.append("hostile")
    else:
        env0 = envs.make_env(_cfg(False, ternary), PARTIALS)
        flag0 = _spy(env0)
        o0 = oc.render(case, lambda: env0.from_string(src), **data)
        env1 = envs.make_env(_cfg(True, ternary), PARTIALS)
        flag1 = _spy(env1)
        o1 = oc.render(case, lambda: env1.from_string(src), **data)
        # asserted only when no special character occurred anywhere: not in the output and not in
        # any string a filter received or produced (stringified collections contain quotes)
        clean = o0[0] == "ok" and not _has_special(o0[1]) and not flag0 and not flag1
        if clean and (o1[0] != "ok" or o0[1] != o1[1]):
            v.fail(
                "autoescape-changes-plain-output",
                f"on={oc.short(o1)!r:.150} off={o0[1]!r:.150}\n   src={src!r:.300}\n   data={data!r:.200}",
            )
        if not clean:
            v.labels.append("plain:output-has-specials(not asserted)")
        v.nontrivial = bool(used) and out.strip() != ""
        v.labels.append("plain")
    return v


CHAIN_SHAPES = [
    "{{ «E» }}", "{% echo «E» %}", "{% assign v = «E» %}{{ v }}", "{% capture c %}{{ «E» }}{% endcapture %}{{ c }}",
    "{% assign v = «E» %}{% cycle v, h2 %}{% cycle v, h2 %}", "{% for i in lst %}{{ i }}{% endfor %}{{ «E» }}",
    "{% assign v = «E» %}{% render 'p', x: v %}", "{% assign v = «E» %}{% include 'p', x: v %}",
    "{% capture c %}{{ «E» }}{% endcapture %}{{ c | upcase }}{{ c | size }}", "{% liquid\necho «E»\n%}",
    "{% assign v = «E» %}{% if v %}{{ v }}{% endif %}", "{% assign v = «E» %}{% with w: v %}{{ w }}{% endwith %}",
    "{{ «E» | t }}", "{% assign v = «E» %}{{ lst | join: v }}",
]


@st.composite
def chain_cases(draw):
    """A hostile string fed directly into a chain of 1-4 filters, observed through several output sites."""
    r = core.rng(draw)
    prof = _profile(False)
    prof.names = ["h1", "h2", "h3"]
    prof.max_path_segments = 0
    prof.ranges = False
    prof.float_literals = False
    g = gg.Gen(r, prof)
    e = {"k": "filt", "left": {"k": "path", "segs": [{"s": r.choice(prof.names)}]}, "filters": [g.filter_() for _ in range(r.randint(1, 4))]}
    hostile = r.random() < 0.8
    pool = HOSTILE if hostile else PLAIN
    data = {"h1": r.choice(pool), "h2": r.choice(pool), "h3": r.choice(pool), "lst": [r.choice(pool) for _ in range(r.randint(0, 3))]}
    if not hostile:
        data = _strip_specials(data)
    main = [{"k": "src", "v": r.choice(CHAIN_SHAPES).replace("«E»", gg.expr_src(e))}]
    return {"kind": "hostile" if hostile else "plain", "main": main, "data": data, "ternary": False, "expr": e}


CODECS = [("base64_encode", "base64_decode"), ("base64_url_safe_encode", "base64_url_safe_decode"), ("url_encode", "url_decode")]
# filters that leave an encoded string as it is, but may wrap, copy or mark it on the way
KEEPERS = ["escape", "escape_once", "append: ''", "prepend: ''", "strip", "lstrip", "rstrip", "default: 'z'", "slice: 0, 9999", "replace: '~', '~'",
           "remove: '~'", "truncate: 9999", "strip_newlines", "split: '~' | join: '~'", "split: '~' | first"]


@st.composite
def roundtrip_cases(draw):
    """hostile | encode | (text-preserving filters, a capture) | decode: the decoded text is data again and must be escaped."""
    r = core.rng(draw)
    enc, dec = r.choice(CODECS)
    mids = [r.choice(KEEPERS) for _ in range(r.choice([0, 1, 1, 2]))]
    name = r.choice(["h1", "h2"])
    if r.random() < 0.4:
        first = " | ".join([name, enc, *mids[:1]])
        rest = " | ".join(["c", *mids[1:], dec])
        src = "{% capture c %}{{ " + first + " }}{% endcapture %}{{ " + rest + " }}"
    else:
        chain = " | ".join([name, enc, *mids, dec])
        src = r.choice(CHAIN_SHAPES[:12]).replace("«E»", chain)
    data = {"h1": r.choice(HOSTILE), "h2": r.choice(HOSTILE), "h3": "x", "lst": [r.choice(HOSTILE)]}
    return {"kind": "hostile", "main": [{"k": "src", "v": src}], "data": data, "ternary": False}


@st.composite
def cases(draw):
    r = core.rng(draw)
    ternary = r.random() < 0.4
    main = gg.Gen(r, _profile(ternary)).template()
    hostile = r.random() < 0.65
    strings = HOSTILE if hostile else PLAIN
    data = gd.DataGen(r, strings=strings, keys=["a", "b", "name", "title", "x"]).data()
    data["items"] = [r.choice(strings) for _ in range(r.randint(0, 3))]
    data["x"] = r.choice(strings)
    if not hostile:
        data = _strip_specials(data)
    return {"kind": "hostile" if hostile else "plain", "main": main, "data": data, "ternary": ternary}


def _strip_specials(x):
    if isinstance(x, dict):
        return {k: _strip_specials(v) for k, v in x.items()}
    if isinstance(x, list):
        return [_strip_specials(v) for v in x]
    if isinstance(x, str):
        return re.sub(r"[<>&'\"]", "", x)
    return x


SAFE_SHAPES = [
    "{{ m }}", "{% echo m %}", "{% assign v = m %}{{ v }}", "{% capture c %}{{ m }}{% endcapture %}{{ c }}",
    "{% cycle m, m %}", "{% for i in lst %}{{ i }}{% endfor %}", "{{ m if true else 'x' }}", "{{ 'x' if false else m }}",
    "{% render 'p', x: m %}", "{% include 'p', x: m %}", "{% with x: m %}{{ x }}{% endwith %}",
    "{% liquid\necho m\n%}", "{% case 1 %}{% when 1 %}{{ m }}{% endcase %}", "{% if m %}{{ m }}{% endif %}",
]
SAFE_VALUES = [gd.tagged("markup", v="<b>bold</b> & 'q'"), gd.tagged("html", v="<i>x</i>&\"")]


# every argument position of the translation filters and of the translate tag, fed from render data
I18N_SHAPES = [
    "{{ x | t }}", "{{ 'm' | t: plural: x, count: n }}", "{{ x | t: plural: x, count: n }}", "{{ 'm' | t: x, plural: x, count: n }}", "{{ 'm' | t: x }}",
    "{{ '%(v)s!' | t: v: x }}", "{{ 'a %(v)s' | t: plural: 'b %(v)s', count: n, v: x }}", "{{ x | gettext }}", "{{ '%(v)s!' | gettext: v: x }}",
    "{{ x | ngettext: x, n }}", "{{ 'a' | ngettext: x, n }}", "{{ 'a %(v)s' | ngettext: 'b %(v)s', n, v: x }}", "{{ x | pgettext: 'c' }}", "{{ 'a' | pgettext: x }}",
    "{{ 'a %(v)s' | pgettext: 'c', v: x }}", "{{ 'a' | npgettext: 'c', x, n }}", "{{ x | npgettext: x, x, n }}", "{{ 'a %(v)s' | npgettext: 'c', 'b %(v)s', n, v: x }}",
    "{% translate v: x %}Hello {{ v }}{% endtranslate %}", "{% translate %}Hello {{ x }}{% endtranslate %}",
    "{% translate count: n, v: x %}One {{ v }}{% plural %}Many {{ v }} {{ count }}{% endtranslate %}",
    "{% translate context: x, v: x %}Hello {{ v }}{% endtranslate %}", "{% translate v: x | upcase %}Hello {{ v }}{% endtranslate %}",
    "{% assign m = x | t %}{{ m }}", "{% capture m %}{{ 'm' | t: plural: x, count: n }}{% endcapture %}{{ m }}", "{{ x | t | append: x }}", "{{ x | t | t }}",
]
I18N_COUNTS = [0, 1, 2, "2", None]


def _i18n(ctx: core.Ctx, shard: int, nshards: int) -> None:
    idx = 0
    for shape in I18N_SHAPES:
        for n in I18N_COUNTS:
            if "n" not in shape.replace("endtranslate", "").replace("count", "").replace("npgettext", "").replace("ngettext", "").replace("append", "").replace("assign", "") and n != 1:
                continue
            for x in HOSTILE:
                idx += 1
                if idx % nshards == shard:
                    ctx.run({"kind": "hostile", "src": shape, "data": {"x": x, "n": n}, "ternary": False}, enumerated=True)


def campaign(ctx: core.Ctx, tier: str, shard: int, nshards: int) -> None:
    _i18n(ctx, shard, nshards)
    idx = 0
    for i in range(len(SAFE_SHAPES)):
        for val in SAFE_VALUES:
            idx += 1
            if idx % nshards == shard:
                ctx.run({"kind": "safe", "i": i, "v": val})
    for f in MEMO_FILTERS:
        for st_ in MEMO_STRINGS:
            idx += 1
            if idx % nshards == shard:
                ctx.run({"kind": "memo", "filter": f, "s": st_}, enumerated=True)
    total = 4000 if tier == "quick" else 120000
    core.drive(cases(), ctx.run, n=max(1, total // nshards), seed=core.sub_seed(ctx.seed, shard))
    core.drive(chain_cases(), ctx.run, n=max(1, (6000 if tier == "quick" else 150000) // nshards), seed=core.sub_seed(ctx.seed, shard, 7))
    core.drive(roundtrip_cases(), ctx.run, n=max(1, (2000 if tier == "quick" else 40000) // nshards), seed=core.sub_seed(ctx.seed, shard, 8))


def finish_kwargs(ctx: core.Ctx, tier: str) -> dict:
    return {
        "rule": (
            "autoescape=True; random templates over output, echo, assign, capture, cycle, for, if, case, liquid, "
            "include/render, with, ternary and the t filter, with chains of up to 4 built-in string/array/math filters "
            "(all except safe, newline_to_br, script_tag, stylesheet_tag, json, escapejs); template text and "
            "string literals contain no HTML-special characters; data strings come from a pool rich in <>&'\" and "
            "entity fragments; plus round-trip chains data | encode | text-preserving filters or a capture | decode "
            "(base64, url-safe base64, url encoding). (A) no raw < > \" ' in the output; (A') every & starts a complete entity, asserted "
            "when no cutting filter occurs in the template; (B) Markup / __html__ values are output unchanged through "
            "15 shapes; (B') a filter applied to a trusted value and then, in the same process, to an equal untrusted string "
            f"must still escape the second ({len(MEMO_FILTERS)} filters x {len(MEMO_STRINGS)} strings); (C) with special characters removed from the data the output is identical with autoescape "
            "off. Non-trivial (A) = a data string with a special character reached the output through a filter or "
            "a tag other than a bare output."
        ),
        "assumptions": ["tablerow is excluded: its own <tr>/<td> markup is HTML-generating"],
    }
