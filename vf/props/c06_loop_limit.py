"""C06 - loop iteration limit bounds nested iteration (reference arithmetic on marker counts)."""

from __future__ import annotations

import copy
import itertools

from hypothesis import strategies as st

from .. import core
from .. import envs
from .. import outcome as oc
from ..core import Verdict

PID = "C06"
SHARDS = {"quick": 8, "thorough": 16}

KINDS = ["for", "tablerow", "tablerow_cols", "include_for", "render_for", "include", "render", "macro"]
REPEATING = {"for", "tablerow", "tablerow_cols", "include_for", "render_for"}
ISOLATING = {"render_for", "render", "macro"}  # include is not allowed below these
MARK = "ABCDEFGHIJKLMNOPQRSTUVWXYZ"
COLLS = ["list", "range", "dict", "str"]


def chain(levels) -> list:
    """The tree of a single nest given as a list of levels (the original case format)."""
    nodes: list = []
    cur = nodes
    for lv in levels:
        node = dict(lv, body=[])
        cur.append(node)
        cur = node["body"]
    return nodes


def number(tree) -> int:
    """Give every node its preorder id; returns the number of nodes."""
    cnt = 0

    def walk(nodes):
        nonlocal cnt
        for n in nodes:
            n["id"] = cnt
            cnt += 1
            walk(n.get("body") or [])

    walk(tree)
    return cnt


def build(tree, strseq: bool = False) -> tuple[str, dict, dict]:
    """(main source, partials, data) for a forest of nests; node i emits MARK[i] once per execution of its block."""
    partials: dict = {}
    data: dict = {}

    def coll(nd) -> str:
        i, n, c = nd["id"], nd["n"], nd.get("coll", "list")
        arr = f"a{i}"
        if c == "range":
            return f"(1..{n})" if n else "(1..0)"
        if c == "dict":
            data[arr] = {f"k{j}": j for j in range(n)}
        elif c == "str":
            # with string_sequences one item per character, without it one item for a non-empty string
            data[arr] = "abcdefghijklmnopqrstuvwxyz"[: n] if strseq else ("s" * 7 if n else "")
        else:
            data[arr] = list(range(n))
        return arr

    def args(nd) -> str:
        out = ""
        if nd.get("off") is not None:
            out += f" offset: {nd['off']}"
        if nd.get("lim") is not None:
            out += f" limit: {nd['lim']}"
        return out

    def seq(nodes) -> str:
        return "".join(one(nd) for nd in nodes)

    def one(nd) -> str:
        i, kind = nd["id"], nd["k"]
        inner = MARK[i] + seq(nd.get("body") or [])
        if kind == "for":
            return "{% for x" + str(i) + " in " + coll(nd) + args(nd) + " %}" + inner + "{% endfor %}"
        if kind == "tablerow":
            return "{% tablerow x" + str(i) + " in " + coll(nd) + args(nd) + " %}" + inner + "{% endtablerow %}"
        if kind == "tablerow_cols":  # fewer columns than items: the iteration count is the length, not the column count
            return "{% tablerow x" + str(i) + " in " + coll(nd) + " cols: 2" + args(nd) + " %}" + inner + "{% endtablerow %}"
        if kind in ("include_for", "render_for"):
            partials[f"p{i}"] = inner
            data[f"a{i}"] = list(range(nd["n"]))
            return "{% " + kind.split("_")[0] + " 'p" + str(i) + "' for a" + str(i) + " %}"
        if kind == "include":
            partials[f"p{i}"] = inner
            return "{% include 'p" + str(i) + "' %}"
        if kind == "render":
            partials[f"p{i}"] = inner
            return "{% render 'p" + str(i) + "' %}"
        if kind == "macro":
            return "{% macro m" + str(i) + " %}" + inner + "{% endmacro %}{% call m" + str(i) + " %}"
        raise core.HarnessError(kind)

    return seq(tree), partials, data


def length_of(nd, strseq: bool = True) -> int:
    if nd["k"] not in REPEATING:
        return 1
    n = nd["n"]
    if nd.get("coll") == "str" and not strseq:
        n = min(n, 1)
    if nd["k"] in ("for", "tablerow", "tablerow_cols"):
        n = max(0, n - (nd.get("off") or 0))
        if nd.get("lim") is not None:
            n = min(n, max(0, nd["lim"]))
    return n


def evaluate(case) -> Verdict:
    v = Verdict()
    tree = copy.deepcopy(case["tree"]) if "tree" in case else chain(case["levels"])
    limit = case["limit"]
    strseq = bool(case.get("strseq"))
    if number(tree) > len(MARK):
        v.labels.append("malformed")
        return v
    src, partials, data = build(tree, strseq)
    env = envs.make_env(
        {"mode": "strict", "extra": True, "twice": False, "limits": {"loop_iteration_limit": limit}, "flags": {"string_sequences": strseq}},
        partials,
    )
    o = oc.render(case, lambda: env.from_string(src), **data)
    # reference arithmetic: the product of lengths on the way down to every reachable node, in document order
    expect: dict = {}
    over: list = []
    pairs: list = []
    maxdepth = 0

    def walk(nodes, mult, parent, depth):
        nonlocal maxdepth
        for nd in nodes:
            maxdepth = max(maxdepth, depth)
            p_ = mult * length_of(nd, strseq)
            expect[nd["id"]] = p_
            if parent is not None:
                pairs.append(f"{parent['k']}>{nd['k']}")
            if p_ > limit:
                over.append((nd, parent, p_))
            elif p_ > 0:
                walk(nd.get("body") or [], p_, nd, depth + 1)

    walk(tree, 1, None, 1)

    def describe() -> str:
        def d(nodes):
            return "[" + " ".join(
                f"{nd['k']}:{nd['n']}" + (f"/{nd['coll']}" if nd.get("coll", "list") != "list" else "")
                + (f"/off{nd['off']}" if nd.get("off") is not None else "") + (f"/lim{nd['lim']}" if nd.get("lim") is not None else "")
                + (d(nd["body"]) if nd.get("body") else "") for nd in nodes) + "]"
        return d(tree)

    shape = describe()
    if o[0] == "crash":
        v.fail(f"crash:{o[1]}", f"{shape} limit={limit}: {o[1]} at {o[2]}")
    elif over:
        nd, parent, p_ = over[0]
        pair = f"{parent['k'] if parent else 'top'}>{nd['k']}"
        if _is_sibling_before(tree, nd):
            pair += ":after-sibling"
        if nd.get("coll", "list") == "str":
            pair += ":string"
        if o[0] == "ok":
            counts = {MARK[i]: o[1].count(MARK[i]) for i in expect}
            v.fail(
                f"not-limited:{pair}",
                f"{shape} limit={limit}: product {p_} at node {MARK[nd['id']]} exceeds the "
                f"limit but the render completed (marker counts {counts})\n   src={src!r:.300} partials={partials!r:.300}",
            )
        elif o[1] != "LoopIterationLimitError":
            v.fail(f"wrong-error:{o[1]}", f"{shape} limit={limit}: raised {o[1]} instead of LoopIterationLimitError")
    else:
        if o[0] == "liquid":
            last = max(expect)
            v.fail(
                f"spurious:{o[1]}:{_node(tree, last)['k']}",
                f"{shape} limit={limit}: every product {sorted(expect.values())} is within the limit "
                f"but the render raised {o[1]}\n   src={src!r:.300}",
            )
        elif o[0] == "ok":
            for i, pj in expect.items():
                got = o[1].count(MARK[i])
                if got != pj:
                    v.fail(f"count:{_node(tree, i)['k']}", f"{shape}: marker {MARK[i]} x{got}, expected {pj}\n   src={src!r:.300}")
                    break
    full = max([1] + [x for x in expect.values()] + [p_ for _, _, p_ in over])
    v.nontrivial = maxdepth >= 2 and limit / 4 <= full <= limit * 4
    v.labels.append("depth:" + str(maxdepth))
    if len(expect) > maxdepth:
        v.labels.append("siblings")
    v.labels.append("outcome:" + ("limit-error" if o[0] == "liquid" else o[0]))
    for pr in pairs:
        v.labels.append("pair:" + pr)
    v.info = src
    return v


def _all(nodes):
    for nd in nodes:
        yield nd
        yield from _all(nd.get("body") or [])


def _node(tree, i):
    return next(nd for nd in _all(tree) if nd["id"] == i)


def _is_sibling_before(tree, nd) -> bool:
    def find(nodes):
        for j, x in enumerate(nodes):
            if x is nd:
                return j > 0
            r = find(x.get("body") or [])
            if r is not None:
                return r
        return None

    return bool(find(tree))


# ---------------------------------------------------------------------------


def valid_shape(kinds) -> bool:
    iso = False
    for k in kinds:
        if iso and k in ("include", "include_for"):
            return False
        if k in ISOLATING:
            iso = True
    return True


def limits_around(full: int) -> list:
    return sorted({max(1, x) for x in (full - 1, full, full + 1, max(1, full // 2), full * 2)})


def _enumerate(ctx: core.Ctx, shard: int, nshards: int, tier: str) -> None:
    quick = tier == "quick"
    lens = [0, 1, 2, 3, 5]
    idx = 0
    for depth in (1, 2, 3):
        for kinds in itertools.product(KINDS, repeat=depth):
            if not valid_shape(kinds):
                continue
            for ns in itertools.product(lens, repeat=depth):
                idx += 1
                if idx % nshards != shard:
                    continue
                if quick and depth == 3 and ((idx // nshards) + ctx.seed) % 12:
                    continue
                levels = [{"k": k, "n": n} for k, n in zip(kinds, ns)]
                full = 1
                for lv in levels:
                    full *= max(length_of(lv), 1)
                for lim in limits_around(full):
                    ctx.run({"levels": levels, "limit": lim}, enumerated=True)


@st.composite
def deep(draw):
    r = core.rng(draw)
    while True:
        kinds = [r.choice(KINDS) for _ in range(r.choice([3, 4, 4]))]
        if valid_shape(kinds):
            break
    levels = [{"k": k, "n": r.randint(0, 12)} for k in kinds]
    full = 1
    for lv in levels:
        full *= max(length_of(lv), 1)
    lim = max(1, min(200, int(full * r.choice([0.25, 0.5, 0.9, 1, 1.1, 2, 4]))))
    if r.random() < 0.2:
        lim = r.randint(1, 200)
    return {"levels": levels, "limit": lim}


def _rand_node(r, depth: int, iso: bool) -> dict:
    kinds = [k for k in KINDS if not (iso and k in ("include", "include_for"))]
    k = r.choice(kinds)
    nd: dict = {"k": k, "n": r.choice([0, 0, 1, 2, 2, 3, 3, 4, 5, 7, 12])}
    if k in ("for", "tablerow", "tablerow_cols"):
        nd["coll"] = r.choice(["list", "list", "range", "dict", "str"])
        if r.random() < 0.2:
            nd["off"] = r.randint(0, 3)
        if r.random() < 0.2:
            nd["lim"] = r.randint(0, 4)
    nd["body"] = []
    if depth > 1:
        for _ in range(r.choice([0, 1, 1, 1, 2, 2, 3])):
            nd["body"].append(_rand_node(r, depth - 1, iso or k in ISOLATING))
    return nd


@st.composite
def trees(draw):
    """Forests: sibling nests after and inside one another, all collection kinds, offset/limit arguments."""
    r = core.rng(draw)
    tree = [_rand_node(r, r.choice([2, 3, 3, 4]), False) for _ in range(r.choice([1, 2, 2, 3]))]
    while sum(1 for _ in _all(tree)) > len(MARK):
        tree.pop()
    strseq = r.random() < 0.5
    prods = []

    def walk(nodes, mult):
        for nd in nodes:
            ln = length_of(nd, strseq)
            prods.append(mult * ln)
            walk(nd["body"], max(mult * ln, 1))

    walk(tree, 1)
    top = max(prods + [1])
    lim = max(1, min(400, int(r.choice(sorted(set(prods)) or [1]) * r.choice([0.5, 0.9, 1, 1, 1.1, 2])))) if r.random() < 0.8 else r.randint(1, top + 5)
    return {"tree": tree, "limit": lim, "strseq": strseq}


def _sequences(ctx: core.Ctx, shard: int, nshards: int, tier: str) -> None:
    """Every kind of construct (every length 0, 1, 3; alone or holding one more loop) before every nest of two."""
    idx = 0
    mains = [ks for ks in itertools.product(KINDS, repeat=2) if valid_shape(ks)]
    for pk in KINDS:
        for pn in (0, 1, 3):
            for inner in (None, "for", "render_for"):
                for mk in mains:
                    idx += 1
                    if idx % nshards != shard:
                        continue
                    if tier == "quick" and ((idx // nshards) + ctx.seed) % 3:
                        continue
                    pre = {"k": pk, "n": pn, "body": [{"k": inner, "n": 2, "body": []}] if inner else []}
                    for wrap in (None, "for", "render"):
                        if wrap == "render" and ("include" in (pk,) + mk or "include_for" in (pk,) + mk):
                            continue
                        main = {"k": mk[0], "n": 3, "body": [{"k": mk[1], "n": 5, "body": []}]}
                        tree = [pre, main] if wrap is None else [{"k": wrap, "n": 2, "body": [pre, main]}]
                        base = length_of(main) * length_of(main["body"][0]) * (2 if wrap == "for" else 1)
                        for lim in (base - 1, base):
                            ctx.run({"tree": tree, "limit": max(lim, 1)}, enumerated=True)


def _strings(ctx: core.Ctx, shard: int, nshards: int) -> None:
    """Loops over strings, with and without string_sequences, alone and around/inside every other kind."""
    idx = 0
    for strseq in (False, True):
        for k in ("for", "tablerow", "tablerow_cols"):
            for n in (0, 1, 4, 9):
                for other in [None] + KINDS:
                    for outer in (True, False):
                        idx += 1
                        if idx % nshards != shard:
                            continue
                        s_ = {"k": k, "n": n, "coll": "str", "body": []}
                        if other is None:
                            tree = [s_]
                        elif outer:
                            s_["body"] = [{"k": other, "n": 3, "body": []}]
                            tree = [s_]
                        else:
                            tree = [{"k": other, "n": 3, "body": [s_]}]
                        ln = (n if strseq else min(n, 1)) * (3 if other in REPEATING else 1)
                        for lim in sorted({max(1, x) for x in (ln - 1, ln, 3, n)}):
                            ctx.run({"tree": tree, "limit": lim, "strseq": strseq}, enumerated=True)


def campaign(ctx: core.Ctx, tier: str, shard: int, nshards: int) -> None:
    _enumerate(ctx, shard, nshards, tier)
    _sequences(ctx, shard, nshards, tier)
    _strings(ctx, shard, nshards)
    core.drive(deep(), ctx.run, n=(3000 if tier == "quick" else 50000) // nshards, seed=core.sub_seed(ctx.seed, shard))
    core.drive(trees(), ctx.run, n=(4000 if tier == "quick" else 80000) // nshards, seed=core.sub_seed(ctx.seed, shard, 1))


def finish_kwargs(ctx: core.Ctx, tier: str) -> dict:
    return {
        "rule": (
            "Nests of depth 1-3 over {for, tablerow, tablerow with cols: 2, include-for, render-for, plain include/render, macro call} x "
            "lengths {0,1,2,3,5} x 5 limits around the product (exhaustive; quick takes 1/12 of depth 3); sequences: every kind of "
            "construct (lengths 0, 1, 3; alone or holding one more loop) in front of every nest of two, at top level and inside "
            "a for or a render, with the limit at and just below the product (exhaustive; quick takes 1/3); loops over strings "
            "with and without string_sequences around/inside every kind; random nests of depth 3-4 with lengths 0-12 and "
            "limits 1-200; random forests (1-3 sibling nests, depth <= 4, up to 3 children per node, list/range/dict/string "
            "collections, offset/limit arguments). Each node emits its own marker; a forest with a reachable node whose "
            "product of enclosing lengths exceeds the limit must raise LoopIterationLimitError, otherwise the render "
            "must complete with exactly the product of lengths of every marker. Non-trivial = depth >= 2 and the "
            "largest product within [N/4, 4N]."
        ),
        "exhaustive": True,
        "assumptions": ["plain include/render and macro calls count with length 1 but must carry the enclosing product"],
    }
