"""C06 - loop iteration limit bounds nested iteration (reference arithmetic on marker counts)."""

from __future__ import annotations

import itertools

from hypothesis import strategies as st

from .. import core
from .. import envs
from .. import outcome as oc
from ..core import Verdict

PID = "C06"
SHARDS = {"quick": 8, "thorough": 16}

KINDS = ["for", "tablerow", "tablerow_cols", "include_for", "render_for", "include", "render", "macro"]
REPEATING = {"for", "tablerow", "tablerow_cols", "include_for", "render_for"}
ISOLATING = {"render_for", "render", "macro"}  # include is not allowed below these
MARK = "ABCD"


def build(levels) -> tuple[str, dict, dict]:
    """(main source, partials, data) for a nest; level i emits MARK[i] once per execution."""
    partials: dict = {}
    data: dict = {}

    def body(i: int) -> str:
        if i >= len(levels):
            return ""
        lv = levels[i]
        kind, n = lv["k"], lv["n"]
        inner = MARK[i] + body(i + 1)
        arr = f"a{i}"
        data[arr] = list(range(n))
        if kind == "for":
            return "{% for x" + str(i) + " in " + arr + " %}" + inner + "{% endfor %}"
        if kind == "tablerow":
            return "{% tablerow x" + str(i) + " in " + arr + " %}" + inner + "{% endtablerow %}"
        if kind == "tablerow_cols":  # fewer columns than items: the iteration count is the length, not the column count
            return "{% tablerow x" + str(i) + " in " + arr + " cols: 2 %}" + inner + "{% endtablerow %}"
        if kind == "include_for":
            partials[f"p{i}"] = inner
            return "{% include 'p" + str(i) + "' for " + arr + " %}"
        if kind == "render_for":
            partials[f"p{i}"] = inner
            return "{% render 'p" + str(i) + "' for " + arr + " %}"
        if kind == "include":
            partials[f"p{i}"] = inner
            return "{% include 'p" + str(i) + "' %}"
        if kind == "render":
            partials[f"p{i}"] = inner
            return "{% render 'p" + str(i) + "' %}"
        if kind == "macro":
            return "{% macro m" + str(i) + " %}" + inner + "{% endmacro %}{% call m" + str(i) + " %}"
        raise core.HarnessError(kind)

    return body(0), partials, data


def length_of(lv) -> int:
    return lv["n"] if lv["k"] in REPEATING else 1


def evaluate(case) -> Verdict:
    v = Verdict()
    levels, limit = case["levels"], case["limit"]
    src, partials, data = build(levels)
    env = envs.make_env({"mode": "strict", "extra": True, "twice": False, "limits": {"loop_iteration_limit": limit}}, partials)
    o = oc.outcome_of(lambda: env.from_string(src).render(**data))
    prods = []
    p = 1
    reachable = True
    for lv in levels:
        if not reachable:
            break
        p *= length_of(lv)
        prods.append(p)
        if p == 0:
            reachable = False
    over = [j for j, pj in enumerate(prods) if pj > limit]
    shape = ">".join(lv["k"] for lv in levels)
    if o[0] == "crash":
        v.fail(f"crash:{o[1]}", f"{shape} lengths={[lv['n'] for lv in levels]} limit={limit}: {o[1]} at {o[2]}")
    elif over:
        j = over[0]
        pair = f"{levels[j - 1]['k'] if j else 'top'}>{levels[j]['k']}"
        if o[0] == "ok":
            counts = {MARK[i]: o[1].count(MARK[i]) for i in range(len(levels))}
            v.fail(
                f"not-limited:{pair}",
                f"{shape} lengths={[lv['n'] for lv in levels]} limit={limit}: product {prods[j]} at level {j} exceeds the "
                f"limit but the render completed (marker counts {counts})\n   src={src!r:.300} partials={partials!r:.300}",
            )
        elif o[1] != "LoopIterationLimitError":
            v.fail(f"wrong-error:{o[1]}", f"{shape} limit={limit}: raised {o[1]} instead of LoopIterationLimitError")
    else:
        if o[0] == "liquid":
            v.fail(
                f"spurious:{o[1]}:{shape.split('>')[-1]}",
                f"{shape} lengths={[lv['n'] for lv in levels]} limit={limit}: every prefix product {prods} is within the limit "
                f"but the render raised {o[1]}\n   src={src!r:.300}",
            )
        elif o[0] == "ok":
            for i, pj in enumerate(prods):
                got = o[1].count(MARK[i])
                if got != pj:
                    v.fail(f"count:{levels[i]['k']}", f"{shape} lengths={[lv['n'] for lv in levels]}: marker {MARK[i]} x{got}, expected {pj}")
                    break
    full = 1
    for lv in levels:
        full *= max(length_of(lv), 1)
    v.nontrivial = len(levels) >= 2 and limit / 4 <= full <= limit * 4
    v.labels.append("depth:" + str(len(levels)))
    v.labels.append("outcome:" + ("limit-error" if o[0] == "liquid" else o[0]))
    for a, b in zip(levels, levels[1:]):
        v.labels.append(f"pair:{a['k']}>{b['k']}")
    v.info = src
    return v


# ---------------------------------------------------------------------------


def valid_shape(kinds) -> bool:
    iso = False
    for k in kinds:
        if iso and k in ("include", "include_for"):
            return False
        if k in ISOLATING:
            iso = True
    return True


def limits_around(full: int) -> list:
    return sorted({max(1, x) for x in (full - 1, full, full + 1, max(1, full // 2), full * 2)})


def _enumerate(ctx: core.Ctx, shard: int, nshards: int, tier: str) -> None:
    quick = tier == "quick"
    lens = [0, 1, 2, 3, 5]
    idx = 0
    for depth in (1, 2, 3):
        for kinds in itertools.product(KINDS, repeat=depth):
            if not valid_shape(kinds):
                continue
            for ns in itertools.product(lens, repeat=depth):
                idx += 1
                if idx % nshards != shard:
                    continue
                if quick and depth == 3 and ((idx // nshards) + ctx.seed) % 12:
                    continue
                levels = [{"k": k, "n": n} for k, n in zip(kinds, ns)]
                full = 1
                for lv in levels:
                    full *= max(length_of(lv), 1)
                for lim in limits_around(full):
                    ctx.run({"levels": levels, "limit": lim}, enumerated=True)


@st.composite
def deep(draw):
    r = core.rng(draw)
    while True:
        kinds = [r.choice(KINDS) for _ in range(r.choice([3, 4, 4]))]
        if valid_shape(kinds):
            break
    levels = [{"k": k, "n": r.randint(0, 12)} for k in kinds]
    full = 1
    for lv in levels:
        full *= max(length_of(lv), 1)
    lim = max(1, min(200, int(full * r.choice([0.25, 0.5, 0.9, 1, 1.1, 2, 4]))))
    if r.random() < 0.2:
        lim = r.randint(1, 200)
    return {"levels": levels, "limit": lim}


def campaign(ctx: core.Ctx, tier: str, shard: int, nshards: int) -> None:
    _enumerate(ctx, shard, nshards, tier)
    core.drive(deep(), ctx.run, n=(3000 if tier == "quick" else 50000) // nshards, seed=core.sub_seed(ctx.seed, shard))


def finish_kwargs(ctx: core.Ctx, tier: str) -> dict:
    return {
        "rule": (
            "Nests of depth 1-3 over {for, tablerow, tablerow with cols: 2, include-for, render-for, plain include/render, macro call} x "
            "lengths {0,1,2,3,5} x 5 limits around the product (exhaustive; quick takes 1/12 of depth 3), plus random "
            "nests of depth 3-4 with lengths 0-12 and limits 1-200. Each level emits its own marker; a nest whose "
            "reachable prefix product exceeds the limit must raise LoopIterationLimitError, otherwise the render "
            "must complete with exactly the product of lengths of every marker. Non-trivial = depth >= 2 and the "
            "product within [N/4, 4N]."
        ),
        "exhaustive": True,
        "assumptions": ["plain include/render and macro calls count with length 1 but must carry the enclosing product"],
    }
