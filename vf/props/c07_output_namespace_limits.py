"""C07 - output and local-namespace limits bound what they measure (invariants under limit sweeps)."""

from __future__ import annotations

import sys

from hypothesis import strategies as st

from .. import core
from .. import envs
from .. import outcome as oc
from ..core import Verdict
from ..gen import data as gd
from ..gen import grammar as gg

PID = "C07"
SHARDS = {"quick": 8, "thorough": 16}

PARTIALS_SRC = {
    "p": "[é{{ p }}{% assign pp = x %}{% assign pq = 'partial-local' %}{% capture pc %}{{ x }}漢{% endcapture %}]",
    "q": "{% assign qa = items %}{% render 'p', x: qa %}{{ qa | size }}😀",
}

_CLASSES: dict = {}
_SENTINEL = object()


def _recording_classes():
    """A BoundTemplate/RenderContext pair that measures the local namespace independently."""
    if _CLASSES:
        return _CLASSES["template"], _CLASSES["log"]
    from liquid import BoundTemplate
    from liquid import RenderContext

    log: dict = {"max": 0, "assigns": 0, "in_partial": 0, "contexts": []}

    def measure(ctx) -> int:
        total = 0
        depth = 0
        while ctx is not None:
            total += sum(sys.getsizeof(v, 1) for v in ctx.locals.values())
            ctx = ctx.parent_context
            depth += 1
        if total > log["max"]:
            log["max"] = total
        return depth

    class RecordingContext(RenderContext):
        __slots__ = ()

        def __init__(self, *args, **kwargs):  # noqa: ANN002, ANN003
            super().__init__(*args, **kwargs)
            log["contexts"].append(self)  # measured again when the render is over (see _render)

        def assign(self, key, val):  # noqa: ANN001
            super().assign(key, val)
            # only reached when the engine accepted the assignment
            depth = measure(self)
            log["assigns"] += 1
            if depth > 1:
                log["in_partial"] += 1

        # the namespace is also measured at every read, so that a value that got into the locals without going
        # through assign() is seen as well
        def get(self, path, *, token, default=_SENTINEL):  # noqa: ANN001
            measure(self)
            if default is _SENTINEL:
                return super().get(path, token=token)
            return super().get(path, token=token, default=default)

    log["measure"] = measure

    class RecordingTemplate(BoundTemplate):
        context_class = RecordingContext

    _CLASSES["template"] = RecordingTemplate
    _CLASSES["log"] = log
    return RecordingTemplate, log


def _env(case, limits: dict):
    cfg = dict(case["cfg"])
    cfg["mode"] = "strict"
    cfg["limits"] = limits
    partials = dict(PARTIALS_SRC)
    partials.update(ENTRY_PARTIALS)
    partials.update({n: gg.to_source(a) for n, a in (case.get("partials") or {}).items()})
    env = envs.make_env(cfg, partials)
    tcls, log = _recording_classes()
    env.template_class = tcls
    return env, log


def _render(case, limits: dict):
    env, log = _env(case, limits)
    log.update(max=0, assigns=0, in_partial=0, contexts=[])
    src = case["src"] if "src" in case else gg.to_source(case["main"])
    data = gd.decode(case["data"])
    o = oc.render(case, lambda: env.from_string(src), **data)
    for ctx in log["contexts"]:
        # what the top-level context holds when the render is over (a finished partial's locals are dead by then and
        # never coexisted with what its ancestors hold now: partial contexts are measured at their assigns and reads)
        if ctx.parent_context is None:
            log["measure"](ctx)
    log["contexts"] = []
    return o, {k: log[k] for k in ("max", "assigns", "in_partial")}


def evaluate(case) -> Verdict:
    v = Verdict()
    base, blog = _render(case, {})
    if base[0] != "ok":
        v.labels.append("unlimited-render-fails")
        return v
    text = base[1]
    n = len(text.encode("utf-8"))
    src = case["src"] if "src" in case else gg.to_source(case["main"])
    extra = case.get("extra_limits") or []
    # -- output stream limit
    for lim in sorted({0, 1, max(n - 1, 0), n, n + 1, 2 * n, *[e for e in extra if e <= 2 * n + 2]}):
        o, _ = _render(case, {"output_stream_limit": lim})
        if o[0] == "ok":
            got = len(o[1].encode("utf-8"))
            if got > lim:
                v.fail("output:returned-more-than-limit", f"output_stream_limit={lim}: returned {got} bytes; src={src!r:.300}")
                break
            if n > lim:
                v.fail("output:not-raised", f"unlimited output is {n} bytes but the render completed under limit {lim}; src={src!r:.300}")
                break
        elif o[0] == "liquid":
            if n > lim and o[1] != "OutputStreamLimitError":
                v.fail(f"output:wrong-error:{o[1]}", f"output_stream_limit={lim} (unlimited {n} bytes): raised {o[1]}; src={src!r:.300}")
                break
        else:
            v.fail(f"output:crash:{o[1]}", f"limit {lim}: {oc.short(o)}")
            break
    # -- local namespace limit
    s = blog["max"]
    for lim in sorted({0, 1, max(s - 1, 0), s, s + 1, 2 * s, *[e for e in extra if e <= 2 * s + 2]}):
        o, log = _render(case, {"local_namespace_limit": lim})
        if o[0] == "ok" and log["max"] > lim:
            v.fail(
                "namespace:held-more-than-limit",
                f"local_namespace_limit={lim}: the render completed but held locals measuring {log['max']} "
                f"(own + ancestors' sys.getsizeof); src={src!r:.300}",
            )
            break
        if o[0] == "crash":
            v.fail(f"namespace:crash:{o[1]}", f"limit {lim}: {oc.short(o)}")
            break
    multibyte = any(ord(c) > 127 for c in text)
    kinds = gg.kinds(case["main"]) if "main" in case else {"render", "include", "capture"}
    out_nt = n >= 8 and multibyte and bool(kinds & {"capture", "include", "render", "ifchanged"})
    ns_nt = blog["assigns"] >= 2 and blog["in_partial"] >= 1
    v.nontrivial = out_nt or ns_nt
    if out_nt:
        v.labels.append("output-nontrivial")
    if ns_nt:
        v.labels.append("namespace-nontrivial")
    return v


def _profile(cfg) -> gg.Profile:
    nodes = ["text", "text", "out", "echo", "assign", "assign", "capture", "capture", "if", "for", "cycle", "ifchanged",
             "include", "render", "render", "liquid", "case", "tablerow"]
    return gg.Profile(
        nodes=nodes, partials=["p", "q", "gen"], depth=3, width=4,
        text_alphabet=["a", "b", " ", "é", "漢", "😀", "x", "\n", "\r\n", "\r"],
        str_alphabet=["a", "é", "漢", " ", "1"],
        dynamic_partial_names=False, break_continue=False,
        filters=["upcase", "append", "size", "join", "first", "default", "times", "plus", "slice", "split", "reverse"],
    )


WIDTHS = ["a", "é", "漢", "😀"]  # 1, 1 (latin-1), 2 and 4 bytes per character in memory


def _rebinds(r) -> list:
    """Bind the same name again and again to strings of the same (or shorter) length and different width."""
    n = r.choice([20, 60, 200])
    out: list = []
    name = r.choice(["s", "t"])
    for _ in range(r.randint(2, 4)):
        ch = r.choice(WIDTHS)
        text = ch * (n - r.choice([0, 0, 1, 5]))
        if r.random() < 0.6:
            out.append({"k": "capture", "name": name, "body": [{"k": "text", "v": text}]})
        else:
            out.append({"k": "assign", "name": name, "e": {"k": "filt", "left": {"k": "str", "v": text, "q": "'"}, "filters": []}, "ws": None})
        if r.random() < 0.3:
            out.append({"k": "out", "e": {"k": "filt", "left": {"k": "path", "segs": [{"s": name}]}, "filters": [{"name": "size", "args": []}]}, "ws": None})
    return out


@st.composite
def cases(draw):
    r = core.rng(draw)
    cfg = {"undefined": "default", "autoescape": False, "strict_filters": True, "extra": False, "flags": {}}
    prof = _profile(cfg)
    main = gg.Gen(r, prof).template()
    if r.random() < 0.3:
        main = _rebinds(r) + main[:2]
        if r.random() < 0.4:
            main = [{"k": "for", "var": "i", "iter": {"k": "range", "a": {"k": "int", "v": 1}, "b": {"k": "int", "v": 2}}, "?limit": None,
                     "?offset": None, "rev": False, "body": main, "?else": None, "ws": None}]
    pp = _profile(cfg)
    pp.depth, pp.partials, pp.in_partial = 2, ["p"], "render"
    gen = gg.Gen(r, pp).template()
    data = gd.DataGen(r, strings=["é", "漢字", "😀", "ab", "x y"]).data()
    data["items"] = ["é", "b", "漢"][: r.randint(0, 3)]
    return {"cfg": cfg, "main": main, "partials": {"gen": gen}, "data": data, "extra_limits": [r.randint(0, 200), r.randint(0, 2000)]}


# the parent holds locals of some size, then a partial that binds locals of its own is entered in every way there is;
# the peak of the namespace lies inside the partial, so the sweep's "one below the peak" limit has to stop the render there
ENTRIES = [
    "{% render 'w' %}", "{% render 'w', x: big %}", "{% render 'w' with items %}", "{% render 'w' for items %}", "{% render 'w' for items as it %}",
    "{% render 'w' for one %}", "{% render 'w' for 'str' %}", "{% include 'w' %}", "{% include 'w' for items %}", "{% include 'w' with items %}",
    "{% render 'ww' %}", "{% render 'ww' for items %}", "{% for i in items %}{% render 'w' %}{% endfor %}", "{% for i in items %}{% include 'w' %}{% endfor %}",
    "{% tablerow i in items %}{% render 'w' for items %}{% endtablerow %}", "{% capture c %}{% render 'w' for items %}{% endcapture %}",
    "{% if true %}{% render 'w' for items %}{% endif %}", "{% liquid\nrender 'w' for items\n%}",
]
ENTRY_PARTIALS = {
    "w": "{% assign wv = 'WWWWWWWWWWWWWWWWWWWWWWWWWWWWWWWW' %}{% capture wc %}漢漢漢漢漢漢漢漢{% endcapture %}.",
    "ww": "{% assign v1 = 'ZZZZZZZZZZZZZZZZ' %}{% render 'w' for items %}{% render 'w' %}",
}


def entry_cases():
    cfg = {"undefined": "default", "autoescape": False, "strict_filters": True, "extra": False, "flags": {}}
    for entry in ENTRIES:
        for parent in (0, 40, 400):
            for tail in ("", "{% assign late = 'x' %}"):
                pre = ("{% assign big = '" + "B" * parent + "' %}") if parent else ""
                yield {"cfg": cfg, "src": pre + entry + tail, "partials": {}, "data": {"items": ["é", "b", "漢"], "one": ["x"]}, "extra_limits": []}


def campaign(ctx: core.Ctx, tier: str, shard: int, nshards: int) -> None:
    for i, case in enumerate(entry_cases()):
        if i % nshards == shard:
            ctx.run(case, enumerated=True)
    total = 1500 if tier == "quick" else 30000
    core.drive(cases(), ctx.run, n=max(1, total // nshards), seed=core.sub_seed(ctx.seed, shard))


def finish_kwargs(ctx: core.Ctx, tier: str) -> dict:
    return {
        "rule": (
            "Random templates over output, capture, ifchanged, include, render, cycle, loops with multi-byte text "
            "(é, 漢, 😀) whose unlimited strict render succeeds with U bytes and a maximum independently measured "
            "local-namespace size s. Output limit L in {0,1,U-1,U,U+1,2U,2 random}: a completed render returns <= L "
            "bytes and U > L must raise OutputStreamLimitError. Namespace limit M in {0,1,s-1,s,s+1,2s,2 random}: a "
            "completed render never observed (after any accepted assign/capture) own+ancestor locals measuring more "
            "than M (also measured at every variable read and, for the top-level context, when the render is over). 30% of the "
            "templates re-bind one name several times to strings of equal or shorter length and different character "
            "width. Non-trivial = U >= 8 with a multi-byte character and a capture/partial/ifchanged, or >= 2 "
            "assignments of which one inside a rendered partial."
        ),
        "assumptions": [
            "the independent measure is sum(sys.getsizeof(v, 1)) over the locals of the context and of every "
            "context reached through parent_context, as documented on Environment.local_namespace_limit",
            "a limit >= U is not required to succeed (captured text legitimately counts)",
        ],
    }
