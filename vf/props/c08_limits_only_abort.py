"""C08 - resource limits only abort a render, never alter its output (metamorphic sweep)."""

from __future__ import annotations

from hypothesis import strategies as st

from .. import core
from .. import envs
from .. import outcome as oc
from ..core import Verdict
from ..gen import data as gd
from ..gen import grammar as gg

PID = "C08"
SHARDS = {"quick": 8, "thorough": 16}

PARTIALS_SRC = {
    "p": "[{{ p }}{% assign pp = x %}{% for i in items %}.{% endfor %}]",
    "q": "{% capture c %}{{ q }}é{% endcapture %}{{ c }}{% render 'p' %}",
    # bounded recursion through include (shared scope): depth is data-driven
    "rec": "{% if rn > 0 %}{% assign rn = rn | minus: 1 %}r{% include 'rec' %}{% endif %}",
}
BIG = 10**9
KINDS = ["loop_iteration_limit", "output_stream_limit", "local_namespace_limit", "context_depth_limit", "block_nesting_limit"]


def _limits(kind: str, value) -> dict:
    lim = {"loop_iteration_limit": None, "output_stream_limit": None, "local_namespace_limit": None,
           "context_depth_limit": 40, "block_nesting_limit": 1000}
    if kind:
        lim[kind] = value
    return lim


def _run(case, kind: str, value):
    cfg = dict(case["cfg"])
    cfg["mode"] = "strict"
    cfg["limits"] = _limits(kind, value)
    partials = dict(PARTIALS_SRC)
    partials.update({n: gg.to_source(a) for n, a in (case.get("partials") or {}).items()})
    env = envs.make_env(cfg, partials)
    src = gg.to_source(case["main"])
    data = gd.decode(case["data"])

    return oc.render(case, lambda: env.from_string(src), **data)


def _is_resource(o) -> bool:
    from liquid.exceptions import ResourceLimitError

    return o[0] == "liquid" and isinstance(o[2], ResourceLimitError)


def sweep_values(kind: str, base) -> list:
    n = len(base[1].encode()) if base[0] == "ok" else 40
    if kind == "loop_iteration_limit":
        return [0, 1, 2, 3, 5, 8, 13, 30, 100, 1000, BIG]
    if kind == "output_stream_limit":
        return sorted({0, 1, max(n // 2, 0), max(n - 1, 0), n, n + 1, 2 * n, 4 * n + 10, 100000})
    if kind == "local_namespace_limit":
        return [0, 1, 30, 60, 100, 200, 500, 2000, 100000, BIG]
    if kind == "context_depth_limit":
        return [0, 1, 2, 3, 4, 5, 6, 8, 12, 30, 40]
    if kind == "block_nesting_limit":
        return [0, 1, 2, 3, 4, 5, 6, 8, 30]
    raise core.HarnessError(kind)


def evaluate(case) -> Verdict:
    v = Verdict()
    base = _run(case, "", None)
    if base[0] == "crash":
        v.labels.append("baseline-crash(C02 scope)")
        return v
    b = oc.short(base)
    mixed = False
    for kind in KINDS:
        first_ok = None
        saw_fail = saw_ok = False
        for val in sweep_values(kind, base):
            o = _run(case, kind, val)
            s = oc.short(o)
            if s == b and not _is_resource(o):
                saw_ok = True
                if first_ok is None:
                    first_ok = val
            elif _is_resource(o):
                saw_fail = True
                if first_ok is not None:
                    v.fail(
                        f"not-monotone:{kind}",
                        f"{kind}: succeeded with {first_ok} but fails with {o[1]} at the larger value {val}; src={gg.to_source(case['main'])!r:.300}",
                    )
                    break
            else:
                v.fail(
                    f"altered:{kind}:{s[0]}" + (f":{s[1]}" if s[0] != "ok" else ""),
                    f"{kind}={val}: outcome {s!r:.200} is neither the unlimited outcome {b!r:.200} nor a ResourceLimitError; "
                    f"src={gg.to_source(case['main'])!r:.300}",
                )
                break
        if saw_fail and saw_ok:
            mixed = True
            v.labels.append("mixed:" + kind)
    v.nontrivial = mixed
    v.labels.append("baseline:" + b[0])
    return v


def _profile(cfg) -> gg.Profile:
    nodes = [k for k in gg.STD_NODES if k not in ("comment", "inline_comment")]
    if cfg.get("extra"):
        nodes += gg.EXTRA_NODES
    flags = cfg.get("flags") or {}
    return gg.Profile(
        nodes=nodes, partials=["p", "q", "rec", "gen"], depth=4, width=3,
        text_alphabet=["a", "b", " ", "\n", "é", "漢", "😀", "x", "\r\n", "\r"],
        ternary=bool(flags.get("ternary_expressions")), logical_not=bool(flags.get("logical_not_operator")),
        parens=bool(flags.get("logical_parentheses")), dynamic_partial_names=False,
        filters=[f for f in sorted(gg.FILTER_ARGS) if f != "date"],
    )


@st.composite
def cases(draw):
    r = core.rng(draw)
    cfg = envs.gen_cfg(r, modes=("strict",))
    cfg["undefined"] = "default"
    prof = _profile(cfg)
    main = gg.Gen(r, prof).template()
    pp = _profile(cfg)
    pp.depth, pp.partials, pp.in_partial = 2, ["p"], "render"
    gen = gg.Gen(r, pp).template()
    data = gd.DataGen(r).data()
    data["items"] = [1, 2, 3][: r.randint(0, 3)]
    data["rn"] = r.randint(0, 8)
    return {"cfg": cfg, "main": main, "partials": {"gen": gen}, "data": data}


def campaign(ctx: core.Ctx, tier: str, shard: int, nshards: int) -> None:
    total = 2000 if tier == "quick" else 30000
    core.drive(cases(), ctx.run, n=max(1, total // nshards), seed=core.sub_seed(ctx.seed, shard))


def finish_kwargs(ctx: core.Ctx, tier: str) -> dict:
    return {
        "rule": (
            "Random strict-mode templates (depth 4, multi-byte text, partials incl. a self-recursive one) with data; "
            "for each of the five limits a sorted sweep of 9-11 values from 0 to far beyond the resource used, each "
            "in its own Environment subclass (about 50 renders per case). Every swept outcome must be the "
            "unlimited outcome or a ResourceLimitError subclass, and once a value succeeds every larger value "
            "must succeed with the same output. Non-trivial = some sweep contains both a failing and a succeeding value."
        ),
        "assumptions": ["strict mode only: in lax/warn a suppressed resource error legitimately truncates output"],
    }
