"""C09 - parsing and rendering always terminate within the stack.

Termination is observed as "finished inside a deterministic step budget"
(line events of frames under liquid/, counted with sys.settrace); a budget
overrun aborts the run, so a hang is reported, not suffered.
"""

from __future__ import annotations

import sys
import time

from hypothesis import strategies as st

from .. import core
from .. import envs
from .. import outcome as oc
from ..core import Verdict
from ..gen import grammar as gg
from ..gen import mutate as gm

PID = "C09"
SHARDS = {"quick": 8, "thorough": 16}

PARSE_BUDGET = lambda n: 20000 + 1500 * n  # noqa: E731  line events for a source of n characters
RENDER_BUDGET = 3_000_000
CPU_CAP_S = 20.0


FLAGS = {"logical_not_operator": True, "logical_parentheses": True, "ternary_expressions": True}


class Budget(BaseException):
    """Raised by the tracer when the step budget is exhausted (a hang)."""


MON = sys.monitoring
TOOL = 4  # an otherwise unused sys.monitoring tool id


class Stepper:
    """Counts line events of liquid/ code with sys.monitoring.

    (sys.settrace is not usable here: CPython silently switches tracing off when
    calling the trace function itself hits the recursion limit, which is exactly
    the situation under test.)
    """

    def __init__(self) -> None:
        self.budget = 0
        self.steps = 0
        if MON.get_tool(TOOL) is None:
            MON.use_tool_id(TOOL, "vf-c09")
        MON.register_callback(TOOL, MON.events.LINE, self.on_line)

    def on_line(self, code, line):  # noqa: ARG002
        fn = code.co_filename
        if "/liquid/" not in fn or "/verif/" in fn:
            return MON.DISABLE
        self.steps += 1
        if self.steps > self.budget:
            MON.set_events(TOOL, 0)
            raise Budget()
        return None

    def start(self, budget: int) -> None:
        self.budget = budget
        self.steps = 0
        MON.set_events(TOOL, MON.events.LINE)

    def stop(self) -> None:
        MON.set_events(TOOL, 0)


_STEPPER: dict = {}


def run_traced(fn, budget: int):
    """(outcome, steps, cpu_seconds); outcome ("budget",) when the step budget ran out."""
    import os

    if _STEPPER.get("pid") != os.getpid():
        _STEPPER.update(pid=os.getpid(), st=Stepper())
    st_ = _STEPPER["st"]
    t0 = time.process_time()
    st_.start(budget)
    try:
        o = oc.outcome_of(fn)
    except Budget:
        o = ("budget",)
    finally:
        st_.stop()
    return o, st_.steps, time.process_time() - t0


# ---------------------------------------------------------------------------
# (b) recursive families

BLOCK_KINDS = {
    "if": ("{% if true %}", "{% endif %}"),
    "unless": ("{% unless false %}", "{% endunless %}"),
    "for": ("{% for i in one %}", "{% endfor %}"),
    "case": ("{% case 1 %}{% when 1 %}", "{% endcase %}"),
    "capture": ("{% capture c %}", "{% endcapture %}{{ c }}"),
    "with": ("{% with a: 1 %}", "{% endwith %}"),
    "tablerow": ("{% tablerow i in one %}", "{% endtablerow %}"),
    "liquidif": ("{% liquid\nif true\necho 'x'\nendif\n%}{% if true %}", "{% endif %}"),
}
EDGES = ["include", "render", "render_for", "include_for", "include_dynamic", "extends", "macro", "mutual2", "mutual3", "super"]


def wrap(kinds: list, depth: int, inner: str) -> str:
    opens, closes = [], []
    for i in range(depth):
        o, c = BLOCK_KINDS[kinds[i % len(kinds)]]
        opens.append(o)
        closes.insert(0, c)
    return "".join(opens) + inner + "".join(closes)


def family(case) -> tuple[dict, str, str]:
    """(templates, entry name, expectation)"""
    edge, kinds, d, fan = case["edge"], case["kinds"], case["d"], case.get("fan", 1)
    t: dict = {}
    if case.get("via") == "extends-block" and edge in ("include", "render"):
        # the recursive calls sit in a block that overrides a block of a base template
        t["base"] = "B{% block c %}{% endblock %}"
        t["t0"] = "{% extends 'base' %}{% block c %}a" + wrap(kinds, d, ("{% " + edge + " 't0' %}") * fan) + "{% endblock %}"
        return t, "t0", "depth"
    if case.get("via") == "macro" and edge in ("include", "render"):
        # ... or in a macro that the partial defines and calls
        t["t0"] = "{% macro m %}a" + wrap(kinds, d, ("{% " + edge + " 't0' %}") * fan) + "{% endmacro %}{% call m %}"
        return t, "t0", "depth"
    if edge == "include":
        t["t0"] = "a" + wrap(kinds, d, "{% include 't0' %}" * fan)
        return t, "t0", "depth"
    if edge == "render":
        t["t0"] = "a" + wrap(kinds, d, "{% render 't0' %}" * fan)
        return t, "t0", "depth"
    if edge == "render_for":
        t["t0"] = "a" + wrap(kinds, d, "{% render 't0' for one %}")
        return t, "t0", "depth"
    if edge == "include_for":
        t["t0"] = "a" + wrap(kinds, d, "{% include 't0' for one %}")
        return t, "t0", "depth"
    if edge == "include_dynamic":
        t["t0"] = "a" + wrap(kinds, d, "{% include me %}")
        return t, "t0", "depth"
    if edge == "mutual2":
        t["t0"] = "a" + wrap(kinds, d, "{% include 't1' %}")
        t["t1"] = "b" + wrap(kinds, d, "{% include 't0' %}")
        return t, "t0", "depth"
    if edge == "mutual3":
        t["t0"] = "a" + wrap(kinds, d, "{% render 't1' %}")
        t["t1"] = "b" + wrap(kinds, max(d - 1, 0), "{% render 't2' %}")
        t["t2"] = "c" + wrap(kinds, d, "{% render 't0' %}")
        return t, "t0", "depth"
    if edge == "extends":
        n = case.get("cycle", 1)
        pre = "layouts/" if case.get("folder") else ""  # a name with a directory: the loaded template's .name is only the last component
        for i in range(n):
            t[f"{pre}t{i}"] = "{% extends '" + pre + "t" + str((i + 1) % n) + "' %}" + wrap(kinds, min(d, 28), "{% block b %}x{{ block.super }}{% endblock %}")
        return t, pre + "t0", "inheritance"
    if edge == "macro":
        t["t0"] = "{% macro m %}a" + wrap(kinds, min(d, 28), "{% call m %}") + "{% endmacro %}{% call m %}"
        return t, "t0", "completes"
    if edge == "super":
        t["t0"] = "{% extends 't1' %}{% block b %}" + wrap(kinds, min(d, 27), "{{ block.super }}") + "{% endblock %}"
        t["t1"] = "{% extends 't2' %}{% block b %}" + wrap(kinds, min(d, 27), "{{ block.super }}y") + "{% endblock %}"
        t["t2"] = "R{% block b %}z{% endblock %}"
        return t, "t0", "completes"
    raise core.HarnessError(edge)


def eval_scaling(case) -> Verdict:
    """Parse prefix + unit*n + suffix for doubling n; CPU time must not grow faster than quadratically.

    Time spent inside the C regular-expression engine is invisible to the step counter, so this one relation is
    time-based: process CPU time (not wall clock), a ratio between two sizes (not an absolute deadline), only
    judged once a single parse costs a full second, and only failing on a growth factor above 5 per doubling
    (linear = 2, quadratic = 4).
    """
    v = Verdict()
    env = envs.make_env({"mode": case.get("mode", "strict"), "extra": True, "twice": False, "flags": FLAGS, "template_comments": True})
    prev = None
    n = 50
    while n <= 3200:
        src = case["prefix"] + case["unit"] * n + case["suffix"]
        t0 = time.process_time()
        o = oc.outcome_of(lambda: env.from_string(src))  # noqa: B023
        t = time.process_time() - t0
        if o[0] == "crash":
            v.fail(f"parse:crash:{o[1]}", f"{o[1]} at {o[2]} for {src[:80]!r}... ({len(src)} characters)")
            break
        if t >= 1.0:
            if prev is not None and prev > 0 and t / prev > 5.0:
                v.fail(
                    "parse:superquadratic-time",
                    f"parsing {case['prefix']!r} + {case['unit']!r}*n + {case['suffix']!r}: {prev:.3f} s CPU for n={n // 2}, {t:.3f} s for n={n} "
                    f"(x{t / prev:.1f} per doubling; linear is 2, quadratic 4)",
                )
            else:
                v.labels.append("inconclusive:slow-but-not-superquadratic")
            break
        prev = t
        n *= 2
    v.nontrivial = True
    v.labels.append("scaling")
    v.key = ["scaling", case["prefix"], case["unit"], case["suffix"], case.get("mode")]
    return v


SCALE_PREFIXES = ["{%", "{%-", "{{", "{{-", "{% if", "{% if a", "{% assign x =", "{{ a", "{{ a |", "{#", "{% raw %}", "{% comment %}", "{% liquid", "{% liquid\n", "x", "{% #", "{% for i in a"]
SCALE_UNITS = [" ", "\n", "\t", " \n", "\r\n", "-", "a", "a ", "%", "{", "}", "|", " |", ",", ", ", "(", "'", ".", "a.", "[", "#", "\u2028"]
SCALE_SUFFIXES = ["", "x", "%", "}", "{%", "{{", "-", " %", "#"]


def evaluate(case) -> Verdict:
    v = Verdict()
    kind = case["kind"]
    if kind == "scaling":
        return eval_scaling(case)
    if kind == "parse":
        src = case["src"]
        env = envs.make_env({"mode": case.get("mode", "strict"), "extra": True, "twice": False, "flags": FLAGS})
        o, steps, cpu = run_traced(lambda: env.from_string(src), PARSE_BUDGET(len(src)))
        if o[0] == "budget":
            v.fail("parse:step-budget", f"parsing {len(src)} characters did not finish within {PARSE_BUDGET(len(src))} line events: {src[:120]!r}...")
        elif o[0] == "crash":
            v.fail(f"parse:crash:{o[1]}", f"{o[1]} at {o[2]} for {src[:200]!r}")
        if cpu > CPU_CAP_S:
            v.labels.append("inconclusive:cpu-time")
        v.nontrivial = _ends_inside_markup(src)
        v.labels.append("parse:" + (o[0] if o[0] != "liquid" else "syntax-error"))
        v.info = {"len": len(src), "steps": steps}
        v.key = ["parse", src, case.get("mode")]
        return v
    # recursive family
    templates, entry, expect = family(case)
    mode = case.get("mode", "strict")
    env = envs.make_env({"mode": mode, "extra": True, "twice": False}, templates)
    data = {"one": [1], "me": "t0"}

    def go():
        if case.get("api") != "async":
            return env.get_template(entry).render(**data)
        import asyncio

        async def main():
            t = await env.get_template_async(entry)
            return await t.render_async(**data)

        loop = asyncio.new_event_loop()  # (a loop of its own: a budget exception may leave it in any state)
        try:
            return loop.run_until_complete(main())
        finally:
            loop.close()

    o, steps, cpu = run_traced(go, RENDER_BUDGET)
    where = f"{case['edge']}:{'+'.join(case['kinds'])}"
    desc = f"edge={case['edge']} kinds={case['kinds']} depth={case['d']} fan={case.get('fan', 1)} mode={mode} api={case.get('api', 'sync')} via={case.get('via', '-')}"
    if o[0] == "budget":
        v.fail(f"render:step-budget:{case['edge']}:{mode}", f"{desc}: no result within {RENDER_BUDGET} line events")
    elif o[0] == "crash":
        v.fail(f"render:crash:{o[1]}:{case['edge']}", f"{desc}: {o[1]} at {o[2]}")
    elif o[0] == "liquid" and o[1] == "BlockNestingError":
        # the nest itself is deeper than block_nesting_limit allows (a liquid tag's inner block counts too):
        # outside the property's domain ("at any block depth permitted by the nesting limit")
        v.labels.append("family:over-the-nesting-limit")
        return v
    elif o[0] == "liquid":
        err = o[2]
        if mode != "strict":
            v.fail(f"render:raises-in-{mode}:{o[1]}", f"{desc}: raised {o[1]}")
        elif expect == "completes" and o[1] != "ContextDepthError":
            # (block scopes count towards context_depth_limit, so a deep nest of for/with blocks may hit it)
            v.fail(f"render:unexpected-error:{case['edge']}:{o[1]}", f"{desc}: raised {o[1]}: {str(err).splitlines()[0]!r}")
        elif expect == "depth" and o[1] != "ContextDepthError":
            cause = "RecursionError" if oc.has_recursion_cause(err) else "-"
            v.fail(f"render:wrong-error:{o[1]}:cause={cause}", f"{desc}: expected ContextDepthError, got {o[1]} (cause {cause}): {str(err).splitlines()[0]!r}")
        elif expect == "depth" and case["d"] <= 3 and oc.has_recursion_cause(err):
            # with at most three blocks per level the depth limit (30 levels) lies far inside the Python stack (1000 frames):
            # a depth error that is a converted RecursionError means the limit did not count this kind of recursion
            v.fail(f"render:stack-exhausted-before-depth-limit:{case['edge']}", f"{desc}: ContextDepthError caused by RecursionError: {str(err).splitlines()[0]!r}")
        elif expect == "inheritance" and o[1] != "TemplateInheritanceError":
            v.fail(f"render:wrong-error:{o[1]}", f"{desc}: expected TemplateInheritanceError, got {o[1]}")
    else:
        if expect in ("depth", "inheritance") and mode == "strict":
            v.fail(f"render:not-cut-off:{case['edge']}", f"{desc}: unbounded recursion rendered {len(o[1])} characters without an error")
    v.nontrivial = case["d"] >= 1
    v.labels.append(f"family:{case['edge']}:{o[0] if o[0] != 'liquid' else o[1]}")
    v.info = {"steps": steps}
    _ = where
    return v


def _ends_inside_markup(src: str) -> bool:
    tail = src[-40:]
    return tail.rfind("{%") > tail.rfind("%}") or tail.rfind("{{") > tail.rfind("}}") or src.count("{% end") < src.count("{% if") + src.count("{% for")


# ---------------------------------------------------------------------------

PUMP_FRAGMENTS = [
    "{% if a %}", "{% for i in a %}", "{% case a %}{% when 1 %}", "{% capture c %}", "{% comment %}", "{% raw %}", "{% doc %}",
    "{{", "{%", "}}", "%}", "{{ a", "{% if", "{%- ", " -%}", "{#", "{% liquid\nif a\n", "a | upcase | ", "{{ a | ", "(", "[", "a.", "a[",
    "{% endif %}", "{% else %}", "{% elsif a %}", "{% when 1 %}", "{% endcomment %}", "{% endraw %}", " ", "\n", "{{ 'x' }}", "{% # c %}",
    "{% if a %}{% else %}", "{% tablerow i in a %}", "'", '"', "{{ '", "{% assign x = ", "and a ", "{% if a or ", "{% macro m %}", "{% block b %}",
]


def pumps(sizes: list):
    for frag in PUMP_FRAGMENTS:
        for size in sizes:
            k = max(1, size // max(len(frag), 1))
            for pre, suf in (("", ""), ("{% if a %}", "{% endif %}"), ("x", "{{ y }}")):
                yield pre + frag * k + suf


OPENERS = {
    "if": ("{% if a %}", "{% endif %}"), "unless": ("{% unless a %}", "{% endunless %}"), "case": ("{% case a %}", "{% endcase %}"),
    "for": ("{% for i in a %}", "{% endfor %}"), "tablerow": ("{% tablerow i in a %}", "{% endtablerow %}"),
    "capture": ("{% capture c %}", "{% endcapture %}"), "comment": ("{% comment %}", "{% endcomment %}"), "raw": ("{% raw %}", "{% endraw %}"),
    "ifchanged": ("{% ifchanged %}", "{% endifchanged %}"), "macro": ("{% macro m %}", "{% endmacro %}"), "block": ("{% block b %}", "{% endblock %}"),
    "with": ("{% with x: 1 %}", "{% endwith %}"), "translate": ("{% translate %}", "{% endtranslate %}"), "doc": ("{% doc %}", "{% enddoc %}"),
    "liquid": ("{% liquid\nif a\n", "endif\n%}"),
}
BRANCHES = ["{% else %}", "{% elsif b %}", "{% when 1 %}", "{% when 1, 2 or 3 %}", "{% else %}", "{% plural %}", "{% break %}", "{% continue %}", "{% else b %}", "{% elsif %}", "{% when %}"]
LEAVES = ["x", " ", "{{ a }}", "{{ a | upcase }}", "{% assign x = 1 %}", "{% echo a %}", "{% # c %}", "{% cycle 1, 2 %}", "{% increment n %}", "\n", "{% include 'p' %}", "{{", "{%"]


def skeleton(r, depth: int = 0) -> str:
    """Block structure with branch tags of any kind anywhere, duplicated, and end tags missing or swapped."""
    out = []
    for _ in range(r.randint(1, 4)):
        c = r.random()
        if c < 0.35 and depth < 4:
            kind = r.choice(sorted(OPENERS))
            o, e = OPENERS[kind]
            out.append(o)
            out.append(skeleton(r, depth + 1))
            q = r.random()
            if q < 0.8:
                out.append(e)
            elif q < 0.9:
                out.append(OPENERS[r.choice(sorted(OPENERS))][1])
        elif c < 0.65:
            out.append(r.choice(BRANCHES))
        else:
            out.append(r.choice(LEAVES))
    return "".join(out)


VOCAB = [o for o, _ in OPENERS.values()] + [e for _, e in OPENERS.values()] + BRANCHES[:4] + ["x", "{{ a }}"]


def sequences(ctx: core.Ctx, shard: int, nshards: int, maxlen: int) -> None:
    import itertools

    idx = 0
    for n in range(1, maxlen + 1):
        for seq in itertools.product(VOCAB, repeat=n):
            idx += 1
            if idx % nshards == shard:
                ctx.run({"kind": "parse", "src": "".join(seq), "mode": "strict" if idx % 2 else "lax"}, enumerated=True)


# per block tag that has branch tags: every sequence of its own opening, branch and end tags and a piece of text, in both
# modes - unterminated blocks with extra branches, branches after else, end tags in the wrong place ...
BRANCH_FAMILIES = [
    ["{% if a %}", "{% elsif b %}", "{% else %}", "{% endif %}", "x"],
    ["{% unless a %}", "{% elsif b %}", "{% else %}", "{% endunless %}", "x"],
    ["{% case a %}", "{% when 1 %}", "{% else %}", "{% endcase %}", "x"],
    ["{% for i in a %}", "{% else %}", "{% endfor %}", "{% break %}", "{% if a %}"],
    ["{% if a %}", "{% else %}", "{% for i in a %}", "{% endfor %}", "{% endif %}"],
    ["{% liquid\nif a\n", "else\n", "elsif b\n", "endif\n", "%}"],
]


def branch_sequences(ctx: core.Ctx, shard: int, nshards: int, maxlen: int) -> None:
    import itertools

    idx = 0
    for fam in BRANCH_FAMILIES:
        for n in range(2, maxlen + 1):
            for seq in itertools.product(fam, repeat=n):
                if seq[0] != fam[0]:
                    continue  # (sequences that do not start with the opening tag fail at their first tag)
                for mode in ("strict", "lax"):
                    idx += 1
                    if idx % nshards == shard:
                        ctx.run({"kind": "parse", "src": "".join(seq), "mode": mode}, enumerated=True)


@st.composite
def sources(draw):
    r = core.rng(draw)
    m = gm.Mut(r)
    c = r.random()
    prof = gg.Profile(nodes=list(gg.STD_NODES) + gg.EXTRA_NODES, partials=["p"], odd_strings=True, ternary=True, logical_not=True, parens=True)
    if c < 0.2:
        src = m.soup(1, 25)
    elif c < 0.45:
        src = skeleton(r)
    elif c < 0.5:
        src = m.liquid_soup()
    else:
        base = gg.to_source(gg.Gen(r, prof).template())
        if c < 0.7:
            src = base[: r.randint(0, len(base))]  # a prefix: unterminated and unbalanced tags
        else:
            src, _ = m.mutate(base, r.choice([1, 2, 3]))
    return {"kind": "parse", "src": src, "mode": r.choice(["strict", "lax"])}


def all_prefixes(ctx: core.Ctx, shard: int, nshards: int, nsources: int) -> None:
    import random

    rr = random.Random(ctx.seed * 7919 + 13)
    prof = gg.Profile(nodes=list(gg.STD_NODES) + gg.EXTRA_NODES, partials=["p"], ternary=True, logical_not=True, parens=True, depth=2, width=3)
    idx = 0
    for _ in range(nsources):
        src = gg.to_source(gg.Gen(rr, prof).template())[:400]
        for i in range(len(src) + 1):
            idx += 1
            if idx % nshards == shard:
                ctx.run({"kind": "parse", "src": src[:i], "mode": "strict"})


def families(tier: str, seed: int = 0):
    quick = tier == "quick"
    all_depths = [0, 1, 5, 10, 15, 20, 29] if quick else list(range(0, 31))
    kind_sets = [[k] for k in BLOCK_KINDS] + [["if", "for", "case", "capture", "with"]]
    n = 0
    for edge in EDGES:
        for kinds in kind_sets:
            n += 1
            if quick:
                # deep recursion is expensive here (the interpreter maps and unmaps frame memory), so the quick
                # tier takes two depths per (edge, block kind), rotating with the seed; thorough takes all of them
                a = (n + seed) % len(all_depths)
                depths = sorted({all_depths[a], all_depths[(a + 3) % len(all_depths)]})
            else:
                depths = all_depths
            for j, d in enumerate(depths):
                for mode in ("strict", "lax"):
                    if quick and mode == "lax" and j:
                        continue
                    # both render APIs (the async one recurses through coroutines): quick alternates, thorough takes both
                    for api in (("sync", "async")[(n + j + seed) % 2:][:1] if quick else ("sync", "async")):
                        case = {"kind": "family", "edge": edge, "kinds": kinds, "d": d, "mode": mode}
                        if api == "async":
                            case["api"] = "async"
                        if edge == "extends":
                            for cyc in (1, 2, 3):
                                yield dict(case, cycle=cyc)
                                yield dict(case, cycle=cyc, folder=True)
                        else:
                            yield case


def _campaign(ctx: core.Ctx, tier: str, shard: int, nshards: int) -> None:
    quick = tier == "quick"
    all_prefixes(ctx, shard, nshards, 6 if quick else 60)
    for i, src in enumerate(pumps([200, 2000, 5000] if quick else [200, 2000, 5000, 20000])):
        if i % nshards == shard:
            ctx.run({"kind": "parse", "src": src, "mode": "strict" if i % 2 else "lax"})
    sequences(ctx, shard, nshards, 2 if quick else 3)
    branch_sequences(ctx, shard, nshards, 5 if quick else 6)
    i = 0
    for prefix in SCALE_PREFIXES:
        for unit in SCALE_UNITS:
            for suffix in SCALE_SUFFIXES if not quick else SCALE_SUFFIXES[:: 3 if (len(prefix) + len(unit) + ctx.seed) % 2 else 2]:
                i += 1
                if i % nshards == shard:
                    ctx.run({"kind": "scaling", "prefix": prefix, "unit": unit, "suffix": suffix, "mode": "strict" if i % 2 else "lax"}, enumerated=True)
    for i, case in enumerate(families(tier, ctx.seed)):
        if i % nshards == shard:
            ctx.run(case, enumerated=True)
    # fan-out: two or three recursive calls per level (exponential work if a suppressed depth error lets every level go on)
    j = 0
    for edge in ("include", "render"):
        for fan in (2, 3):
            for d in (0, 1, 12, 25):
                for mode in ("lax", "strict"):
                    j += 1
                    if j % nshards == shard:
                        ctx.run({"kind": "family", "edge": edge, "kinds": ["if"], "d": d, "mode": mode, "fan": fan}, enumerated=True)
                        if not quick or (j // nshards) % 2:
                            ctx.run({"kind": "family", "edge": edge, "kinds": ["if"], "d": d, "mode": mode, "fan": fan, "api": "async"}, enumerated=True)
    for edge in ("include", "render"):
        for via in ("extends-block", "macro"):
            if via == "macro" and edge == "include":
                continue  # (include is not allowed inside a macro)
            for fan in (1, 2, 3):
                for d in (0, 3, 12):
                    for mode in ("lax", "strict"):
                        for api in ("sync", "async"):
                            j += 1
                            if j % nshards == shard and (not quick or (j // nshards + ctx.seed) % 2 == 0 or (fan == 2 and d == 0)):
                                case = {"kind": "family", "edge": edge, "kinds": ["if"], "d": d, "mode": mode, "fan": fan, "via": via}
                                if api == "async":
                                    case["api"] = "async"
                                ctx.run(case, enumerated=True)
    core.drive(sources(), ctx.run, n=(4000 if quick else 100000) // nshards, seed=core.sub_seed(ctx.seed, shard))


KNOWN_PREDICATES: dict = {}


def campaign(ctx: core.Ctx, tier: str, shard: int, nshards: int) -> None:
    _campaign(ctx, tier, shard, nshards)
    if tier == "thorough":
        # coverage-guided stage: one libFuzzer campaign per shard with this module's evaluate() as the in-target oracle
        from .. import fuzz

        fuzz.campaign(ctx, PID, runs=40000, seed=core.sub_seed(ctx.seed, shard, 9))


def _finish_kwargs(ctx: core.Ctx, tier: str) -> dict:
    return {
        "case_predicates": KNOWN_PREDICATES,
        "rule": (
            "(a) parse: every prefix of generated sources (<= 400 chars), every sequence of up to " + ("2" if tier == "quick" else "3") + f" of {len(VOCAB)} block/branch/end tags, "
            "random block skeletons with branch tags of any kind anywhere and missing or swapped end tags, mutated sources, token soup and pumped sources "
            f"(each of {len(PUMP_FRAGMENTS)} lexeme fragments repeated up to {'5' if tier == 'quick' else '20'} KB, bare and inside a "
            "block) must finish with a template or a LiquidError within 20000 + 1500*len line events of liquid/ code; "
            f"scaling families prefix + unit*n + suffix ({len(SCALE_PREFIXES)} prefixes x {len(SCALE_UNITS)} units x suffixes, n doubling "
            "from 50 to 3200) must not show CPU time growing more than 5-fold per doubling once a parse takes a second. "
            "(b) render: families of 1-3 mutually recursive templates - edge in {include, render, render-for, "
            "include-for, dynamic include, extends (cycle 1-3, flat names and names with a directory component), macro call, block.super} placed under d nested blocks "
            "(" + ("two of d in {0,1,5,10,15,20,29} per (edge, kind), rotating with the seed" if tier == "quick" else "every d in 0..30") + ") of 8 block kinds and a mixed nest, strict and lax - must finish within 3e6 line "
            "events: unbounded recursion with ContextDepthError / TemplateInheritanceError in strict mode (never "
            "RecursionError, never a generic error wrapping one), bounded cases by completing, lax mode without raising. "
            "Non-trivial: (a) the source ends inside a block or markup; (b) block depth >= 1."
        ),
        "exhaustive": tier == "thorough",
        "assumptions": [
            "termination is observed as 'within budget', not proved; budgets are deterministic line counts",
            "CPU time above 20 s per parse is only labelled inconclusive (regex time in C is invisible to tracing); the "
            "scaling relation is the one time-based oracle: process CPU time, growth ratio between two sizes, judged "
            "only from one second per parse upwards",
        ],
    }


def finish_kwargs(ctx: core.Ctx, tier: str) -> dict:
    kw = _finish_kwargs(ctx, tier)
    if tier == "thorough":
        from .. import fuzz

        kw["rule"] += fuzz.RULE_NOTE
        kw.setdefault("assumptions", []).append(fuzz.ASSUMPTION)
    return kw
