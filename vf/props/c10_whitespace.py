"""C10 - literal text, raw blocks, comments and whitespace control (constructive reference)."""

from __future__ import annotations

import itertools

from hypothesis import strategies as st

from .. import core
from .. import envs
from .. import outcome as oc
from ..core import Verdict

PID = "C10"
SHARDS = {"quick": 8, "thorough": 16}

# "all whitespace": every character str.isspace() accepts (what str.strip() removes), not just the ASCII ones
WS = "".join(chr(c) for c in range(0x3100) if chr(c).isspace())
TEXTS = ["ab", " ab ", "\n  ", " \t", "x}y ", " %} z", "a #} ", "{ b\n", "\r\n c \f\v", "\u00a0 d\u2003\u2028", "\x1c\x85e \u3000"]
KINDS = ["out", "echo", "raw", "comment", "doc", "inline", "liquid", "liquidc", "tcomment"]
BODIES = {
    "raw": [" b ", "{{ n }} {% if %}", "\n"],
    "comment": [" c ", "{% comment %} i {% endcomment %} {{ x }}", ""],
    "doc": [" d ", "\n @param x {{ y }}\n", ""],
}

_ENVS: dict = {}


def env(tc: bool):
    if tc not in _ENVS:
        cfg = {"mode": "strict", "twice": False}
        if tc:
            cfg["template_comments"] = True
        _ENVS[tc] = envs.make_env(cfg)
    return _ENVS[tc]


def h(flag) -> str:
    return "-" if flag else ""


def piece_src(p) -> str:
    t = p["t"]
    if t == "text":
        return p["v"]
    l, r = h(p.get("l")), h(p.get("r"))
    il, ir = h(p.get("il")), h(p.get("ir"))
    if t == "out":
        return "{{" + l + " 'X' " + r + "}}"
    if t == "echo":
        return "{%" + l + " echo 'E' " + r + "%}"
    if t == "inline":
        body = p.get("v", "note")
        return "{%" + l + " #" + (" " + body + " " if body else " ") + r + "%}"
    if t == "liquid":
        return "{%" + l + " liquid\n echo 'L'\n " + r + "%}"
    if t == "liquidc":  # a liquid tag holding a block comment with a body, an empty one and a line comment
        return "{%" + l + " liquid\n comment\n echo 'hidden'\n assign q = 1\n endcomment\n comment\n endcomment\n # note\n echo 'L'\n " + r + "%}"
    if t == "tcomment":
        body = p.get("v", "tc")
        # "{#-#}" would be ambiguous: keep a space between the hyphens of an empty comment
        return "{#" + l + (" " + body + " " if body else (" " if (l or r) else "")) + r + "#}"
    if t == "raw":
        return "{%" + l + " raw " + ir + "%}" + p["v"] + "{%" + il + " endraw " + r + "%}"
    if t == "comment":
        return "{%" + l + " comment " + ir + "%}" + p["v"] + "{%" + il + " endcomment " + r + "%}"
    if t == "doc":
        return "{%" + l + " doc " + ir + "%}" + p["v"] + "{%" + il + " enddoc " + r + "%}"
    raise core.HarnessError(t)


def contribution(p) -> str:
    t = p["t"]
    return {"out": "X", "echo": "E", "liquid": "L", "liquidc": "L", "raw": p.get("v", "")}.get(t, "")


def expected(pieces) -> str:
    # adjacent text pieces are one run of text
    merged: list = []
    for p in pieces:
        if p["t"] == "text" and merged and merged[-1]["t"] == "text":
            merged[-1] = {"t": "text", "v": merged[-1]["v"] + p["v"]}
        else:
            merged.append(dict(p))
    out = []
    for i, p in enumerate(merged):
        if p["t"] != "text":
            out.append(contribution(p))
            continue
        s = p["v"]
        if i > 0 and merged[i - 1].get("r"):
            s = s.lstrip(WS)
        if i + 1 < len(merged) and merged[i + 1].get("l"):
            s = s.rstrip(WS)
        out.append(s)
    return "".join(out)


def evaluate(case) -> Verdict:
    v = Verdict()
    pieces = case["pieces"]
    tc = bool(case.get("tc")) or any(p["t"] == "tcomment" for p in pieces)
    src = "".join(piece_src(p) for p in pieces)
    want = expected(pieces)
    o = oc.render(src, lambda: env(tc).from_string(src), n=1, x=2, y=3)
    if o[0] != "ok":
        v.fail(f"raises:{o[1]}", f"{src!r} -> {oc.short(o)}")
    elif o[1] != want:
        # which piece's hyphen is mishandled?  find the first markup piece whose flags matter
        culprit = "text"
        for i, p in enumerate(pieces):
            if p["t"] == "text":
                continue
            alt = [dict(q) for q in pieces]
            for flag in ("l", "r"):
                if alt[i].get(flag):
                    alt[i][flag] = False
            alt_src = "".join(piece_src(q) for q in alt)
            ao = oc.outcome_of(lambda: env(tc).from_string(alt_src).render(n=1, x=2, y=3))
            if ao[0] == "ok" and ao[1] == expected(alt):
                culprit = p["t"] + ("-outer-hyphen" if (p.get("l") or p.get("r")) else "")
                break
            culprit = p["t"]
        v.fail(f"output:{culprit}", f"{src!r}\n   expected {want!r}\n   observed {o[1]!r}")
    hy = False
    for i, p in enumerate(pieces):
        if p["t"] == "text":
            continue
        prev_ws = i > 0 and pieces[i - 1]["t"] == "text" and pieces[i - 1]["v"][-1:] in WS and pieces[i - 1]["v"] != ""
        next_ws = i + 1 < len(pieces) and pieces[i + 1]["t"] == "text" and pieces[i + 1]["v"][:1] in WS and pieces[i + 1]["v"] != ""
        if (p.get("l") and prev_ws) or (p.get("r") and next_ws) or (p["t"] in ("raw", "comment", "doc") and (prev_ws or next_ws)):
            hy = True
    v.nontrivial = hy
    v.labels.extend(sorted({"piece:" + p["t"] for p in pieces}))
    v.info = src
    return v


# ---------------------------------------------------------------------------


def variants() -> list:
    out = [{"t": "text", "v": t} for t in TEXTS]
    for k in KINDS:
        for l, r in itertools.product([False, True], repeat=2):
            if k in BODIES:
                for il, ir in itertools.product([False, True], repeat=2):
                    for body in BODIES[k][:2]:
                        out.append({"t": k, "l": l, "r": r, "il": il, "ir": ir, "v": body})
            elif k in ("inline", "tcomment"):
                out.append({"t": k, "l": l, "r": r})
                out.append({"t": k, "l": l, "r": r, "v": ""})  # empty body
                if l == r:
                    out.append({"t": k, "l": l, "r": r, "v": "see #42, {{ n }} # x"})  # the comment marker inside the body
            else:
                out.append({"t": k, "l": l, "r": r})
    return out


def _enumerate(ctx: core.Ctx, shard: int, nshards: int, maxlen: int, stride: int) -> None:
    vs = variants()
    idx = 0
    for n in range(1, maxlen + 1):
        for seq in itertools.product(vs, repeat=n):
            idx += 1
            if idx % nshards != shard:
                continue
            if stride > 1 and n == maxlen and (idx // nshards) % stride:
                continue
            if any(a["t"] == "text" and b["t"] == "text" for a, b in zip(seq, seq[1:])):
                continue
            ctx.run({"pieces": [dict(p) for p in seq]}, enumerated=True)


@st.composite
def longer(draw):
    r = core.rng(draw)
    vs = variants()
    texts = [p for p in vs if p["t"] == "text"]
    marks = [p for p in vs if p["t"] != "text"]
    n = r.randint(3, 8)
    pieces = []
    for _ in range(n):
        if r.random() < 0.45:
            pieces.append(dict(r.choice(texts)))
            if r.random() < 0.3:
                pieces[-1]["v"] = "".join(r.choice(list(WS) + ["a", "}", "%", "{ "]) for _ in range(r.randint(1, 5)))
        else:
            pieces.append(dict(r.choice(marks)))
            if pieces[-1]["t"] in BODIES and r.random() < 0.3:
                pieces[-1]["v"] = BODIES[pieces[-1]["t"]][2]
    return {"pieces": pieces}


def campaign(ctx: core.Ctx, tier: str, shard: int, nshards: int) -> None:
    quick = tier == "quick"
    if quick:
        _enumerate(ctx, shard, nshards, 2, 1)
        _enumerate_sampled3(ctx, shard, nshards, 60)
    else:
        _enumerate(ctx, shard, nshards, 3, 1)
    core.drive(longer(), ctx.run, n=(4000 if quick else 50000) // nshards, seed=core.sub_seed(ctx.seed, shard))


def _enumerate_sampled3(ctx: core.Ctx, shard: int, nshards: int, stride: int) -> None:
    vs = variants()
    idx = 0
    for seq in itertools.product(vs, repeat=3):
        idx += 1
        if idx % (nshards * stride) != shard * stride + (ctx.seed % stride):
            continue
        if any(a["t"] == "text" and b["t"] == "text" for a, b in zip(seq, seq[1:])):
            continue
        ctx.run({"pieces": [dict(p) for p in seq]}, enumerated=True)


def finish_kwargs(ctx: core.Ctx, tier: str) -> dict:
    nv = len(variants())
    return {
        "rule": (
            f"Sources assembled from {nv} piece variants: 11 texts (whitespace runs of all six ASCII whitespace "
            "characters and of non-ASCII whitespace str.isspace() accepts, whitespace-only, markup-like fragments), "
            "output, echo, raw, comment (incl. nested and with '#' inside), doc, inline comment, liquid tag, a liquid "
            "tag holding a comment line, {# #} comment, each with every left/right hyphen combination on its first "
            "and last delimiter and, for raw/comment/doc, on the inner delimiters too. "
            + ("All sequences of <= 2 pieces, every 60th of length 3" if tier == "quick" else "All sequences of <= 3 pieces")
            + " plus random sequences of 3-8 pieces; output must equal the constructive reference (text verbatim, "
            "raw body verbatim, comments/doc nothing, hyphen strips only the adjacent text). Non-trivial = a "
            "hyphen adjacent to whitespace-bearing text, or a raw/comment/doc piece adjacent to whitespace."
        ),
        "exhaustive": True,
        "assumptions": ["hyphens on the inner delimiters of raw/comment/doc are expected to have no effect on output"],
    }
