"""C11 - custom delimiters and environments are independent.

(a) metamorphic: the same AST written with two delimiter sets and rendered in
    environments configured with them gives the same result;
(b) histories: interleaved creation/use of several environments gives, for
    every environment, what that environment's own operations give alone.
"""

from __future__ import annotations

import os
import re

from hypothesis import strategies as st

from .. import core
from .. import envs
from .. import isolate
from .. import outcome as oc
from ..core import Verdict
from ..gen import data as gd
from ..gen import grammar as gg

PID = "C11"
SHARDS = {"quick": 8, "thorough": 16}
FLAGS = {"logical_not_operator": True, "logical_parentheses": True, "ternary_expressions": True}

PH = gg.Delims(ts="", te="", os="", oe="", cs="", ce="", lc="")
PH_CHARS = {"": 0, "": 1, "": 2, "": 3, "": 4, "": 5}
DEFAULT4 = ["{%", "%}", "{{", "}}"]
DEFAULT6 = ["{%", "%}", "{{", "}}", "{#", "#}"]
# stand-ins (same length, neither whitespace nor word characters) for text that looks like default delimiters
LOOKALIKE = {"¤¢": "{{", "£¥": "{%", "¦§": "}}", "¨©": "%}", "«¬": "{#"}  # every symbol is used once


def line_marker(delims: list) -> str:
    """The comment marker for lines of a liquid tag (derived by the library from comment_start_string)."""
    if len(delims) > 4:
        return delims[4].replace("{", "") or "#"
    return "#"


def substitute(ph_source: str, delims: list):
    """Replace placeholders by real delimiters; returns (source, collision?)."""
    out = []
    spans = []  # (start, end, which) of every substituted delimiter
    pos = 0
    marker = line_marker(delims)
    for ch in ph_source:
        if ch in PH_CHARS:
            i = PH_CHARS[ch]
            if i >= len(delims):
                return None, True
            spans.append((pos, pos + len(delims[i]), i))
            out.append(delims[i])
            pos += len(delims[i])
        elif ch == "":
            spans.append((pos, pos + len(marker), -1))
            out.append(marker)
            pos += len(marker)
        else:
            out.append(ch)
            pos += 1
    src = "".join(out)
    intended = {(s, i) for s, _e, i in spans if i >= 0}
    marker_spans = [(s, e) for s, e, i in spans if i < 0]
    for i, d in enumerate(delims):
        start = src.find(d)
        while start != -1:
            if (start, i) not in intended:
                same_text_other_role = any(s == start and delims[j] == d for s, _e, j in spans if j >= 0)
                # the liquid-tag comment marker is derived from the comment start delimiter (index 4): only that
                # delimiter may legitimately occur inside it; for any other delimiter the marker is template text
                in_marker = i == 4 and any(s <= start and start + len(d) <= e for s, e in marker_spans)
                if not same_text_other_role and not in_marker:
                    return src, True
            start = src.find(d, start + 1)
    return src, False


def cfg_for(delims, mode="strict", extra=True, twice=True) -> dict:
    cfg = {"mode": mode, "extra": extra, "twice": twice, "flags": FLAGS}
    if delims is not None and list(delims) not in (DEFAULT4,):
        cfg["delims"] = list(delims)
    return cfg


def has_tcomment(nodes: list) -> bool:
    return any(n.get("k") == "tcomment" for n in gg.walk(nodes))


# ---------------------------------------------------------------------------
# (a) rewrite


def eval_rewrite(case) -> Verdict:
    v = Verdict()
    d1, d2 = case["d1"], case["d2"]
    look = case.get("lookalike")
    if look:
        d1 = list(DEFAULT4)
    asts = {"main": case["main"], **case.get("partials", {})}
    ph = {name: gg.to_source(ast, PH) for name, ast in asts.items()}
    srcs = []
    for d in (d1, d2):
        m = {}
        for name, s in ph.items():
            src, collide = substitute(s, d)
            if collide:
                v.labels.append("collision")
                return v
            m[name] = src
        srcs.append(m)
    if look:
        if any(x in "".join(d2) for x in LOOKALIKE.values()):
            v.labels.append("collision")
            return v
        for n in gg.walk(case["main"]):
            if n.get("k") == "text":
                rest = n["v"]
                for k in LOOKALIKE:
                    rest = rest.replace(k, "")
                if any(ch in rest for k in LOOKALIKE for ch in k):
                    v.labels.append("malformed-lookalike")  # (only a minimiser candidate can look like this)
                    return v
        counts = {x: srcs[1]["main"].count(x) for x in d2}
        for k, real in LOOKALIKE.items():
            srcs[1]["main"] = srcs[1]["main"].replace(k, real)
        if any(srcs[1]["main"].count(x) != n for x, n in counts.items()):
            # the look-alike text, next to what stands before or after it, spells one of the custom delimiters
            # ("<" followed by "%}" under the tag delimiter "<%"): a collision with the template text
            v.labels.append("collision")
            return v
    for d in (d1, d2):
        # a start delimiter ending in '-' or an end delimiter starting with '-' cannot be told from the whitespace
        # control hyphen that may stand in that very place: such delimiters collide with the syntax itself
        if any(x.endswith("-") for x in d[0::2]) or any(x.startswith("-") for x in d[1::2]):
            v.labels.append("collision")
            return v
    datas = [gd.decode(x) for x in case["datas"]]
    results = []
    for d, m in zip((d1, d2), srcs):
        made = oc.outcome_of(lambda: envs.make_env(cfg_for(d), {k: s for k, s in m.items() if k != "main"}))  # noqa: B023
        if made[0] != "ok":
            v.fail(
                f"rewrite:environment-raises:{made[1]}",
                f"Environment(...) with delimiters {d} raised {oc.short(made)!r:.200} (the delimiters collide neither with each other nor with the template)",
            )
            return v
        env = made[1]
        row = []
        p = oc.outcome_of(lambda: env.from_string(m["main"]))  # noqa: B023
        if p[0] != "ok":
            row = [oc.short(p)] * len(datas)
        else:
            for data in datas:
                row.append(oc.short(oc.render(case.get('api') or core.canon(case.get('main')), lambda: p[1], **data)))  # noqa: B023
        results.append(row)
    for i, (a, b) in enumerate(zip(*results)):
        if look:
            # side 1 is the default-delimiter original with stand-in text; side 2 has the real look-alike text
            a = _map_lookalike(a)
        if a != b:
            if a[0] == "ok" and b[0] == "ok":
                clause = "output-differs"
            else:
                clause = f"{a[0] if a[0] == 'ok' else a[1]}-vs-{b[0] if b[0] == 'ok' else b[1]}"
            kinds = sorted(gg.kinds(case["main"]))
            v.fail(
                ("lookalike:" if look else "rewrite:") + clause,
                f"delimiters {d1} -> {d2}\n   original  {srcs[0]['main']!r:.300}\n   rewritten {srcs[1]['main']!r:.300}\n"
                f"   original  -> {a!r:.200}\n   rewritten -> {b!r:.200}\n   node kinds {kinds}",
            )
            break
    ok_out = [r for r in results[0] if r[0] == "ok" and r[1]]
    v.nontrivial = bool(ok_out) and list(d1) != list(d2)
    v.labels.append("rewrite:" + ("both-ok" if ok_out else "error-or-empty"))
    v.labels.append("comments:" + ("yes" if len(d2) > 4 else "no"))
    v.info = {"d1": d1, "d2": d2, "src2": srcs[1]["main"][:200]}
    return v


def _map_lookalike(o):
    if o[0] != "ok":
        return o
    s = o[1]
    for k, r in LOOKALIKE.items():
        s = s.replace(k, r)
    return (o[0], s, *o[2:])


# ---------------------------------------------------------------------------
# (b) histories

POOL = [
    DEFAULT4,
    ["<%", "%>", "<<", ">>"],
    ["{%", "%}", "${", "}"],
    ["<%", "%>", "{{", "}}"],
    DEFAULT6,
    ["{%", "%}", "{{", "}}", "/*", "*/"],
    ["[%", "%]", "[[", "]]", "[#", "#]"],
    ["(*", "*)", "(.", ".)"],
    ["{%", "%}", "{{", "}}", "{##", "##}"],
    ["A%", "%A", "B{", "}B"],
]


def _shifted(delims: list) -> list:
    """Delimiter sets that differ from ``delims`` by one character moved across the boundary between two delimiters.

    Written one after the other (in whatever order) such sets spell the same text, which is what a cache key built by
    joining the strings cannot tell apart."""
    out = []
    n = len(delims)
    for i in range(n):
        for j in range(n):
            if i == j:
                continue
            a, b = delims[i], delims[j]
            if len(a) >= 2:
                d = list(delims)
                d[i], d[j] = a[:-1], a[-1] + b
                out.append(d)
                d = list(delims)
                d[i], d[j] = a[1:], b + a[0]
                out.append(d)
    uniq = []
    for d in out:
        if d not in uniq and len(set(d)) == len(d):
            uniq.append(d)
    return uniq


SIBLINGS: dict = {}
ALIASES: dict = {}  # the siblings that spell the same text when joined in the order the library's own signature lists them
N_BASE = len(POOL)
# small template ASTs; "src" nodes are verbatim and delimiter-free unless built from placeholders
T = PH
TEMPLATES = [
    f"{T.os} a {T.oe}|{T.ts} if b {T.te}yes{T.ts} else {T.te}no{T.ts} endif {T.te}",
    f"{T.ts} for i in (1..3) {T.te}{T.os} i {T.oe},{T.ts} endfor {T.te}",
    f"{T.os} a | twice {T.oe}",
    f"{T.ts} mytag {T.te}!",
    f"x{T.ts} nosuch {T.te}y",
    f"{T.ts} liquid\nassign q = a\n{T.lc} note\necho q\n{T.te}",
    f"{T.ts} raw {T.te}{T.os} a {T.oe}{T.ts} endraw {T.te}",
    f"{T.ts}- assign v = 'k' -{T.te} {T.os}- v -{T.oe} ",
    f"{T.cs} hidden {T.ce}shown{T.os} a {T.oe}",
    f"{T.ts} with z: a {T.te}{T.os} z {T.oe}{T.ts} endwith {T.te}",
    f"{T.os} nosuchvar {T.oe}{T.os} a | nosuchfilter {T.oe}",
    "{{ a }}{% if b %}B{% endif %}<< a >>${ a }[[ a ]]",
    f"{T.ts} include 'p' {T.te}",
    f"{T.ts} echo a {T.te}|{T.ts} if b {T.te}{T.ts} echo 'in' {T.te}{T.ts} endif {T.te}",
]
DATAS = [{"a": "A1", "b": True}, {"a": 2, "b": False}]


def _init_siblings() -> None:
    for i in (1, 6, 9, 2, 7):
        usable = []
        for d in _shifted(POOL[i]):
            # keep the sets under which at least five of the history templates can be written without a collision
            if sum(1 for t in TEMPLATES if not substitute(t, d)[1]) >= 5:
                usable.append(d)
        SIBLINGS[i] = list(range(len(POOL), len(POOL) + len(usable)))
        ALIASES[i] = [len(POOL) + k for k, d in enumerate(usable) if "".join(d) == "".join(POOL[i])]
        POOL.extend(usable)
PARTIAL = f"P{T.os} a {T.oe}"
_init_siblings()


def _mytag_class():
    from liquid import Node
    from liquid import Tag
    from liquid.token import TOKEN_TAG

    class MyNode(Node):
        def render_to_output(self, context, buffer):  # noqa: ARG002
            buffer.write("[mytag]")
            return True

    class MyTag(Tag):
        name = "mytag"
        block = False
        node_class = MyNode

        def parse(self, stream):
            token = stream.eat(TOKEN_TAG)
            return MyNode(token)

    return MyTag


def _loud_echo_class():
    """A replacement for a built-in tag under its own name."""
    from liquid.builtin.tags.echo_tag import EchoNode
    from liquid.builtin.tags.echo_tag import EchoTag

    class LoudEchoNode(EchoNode):
        def render_to_output(self, context, buffer):
            buffer.write("<<")
            n = super().render_to_output(context, buffer)
            buffer.write(">>")
            return n

    class LoudEchoTag(EchoTag):
        node_class = LoudEchoNode

    return LoudEchoTag


class _Implicit:
    """The environment that liquid.Template() makes (or re-uses) for one set of keyword arguments."""

    def __init__(self, kw: dict):
        self.kw = kw

    def from_string(self, src: str):
        from liquid import Template

        return Template(src, **self.kw)


def build_env(ecfg: dict):
    delims = POOL[ecfg["delims"]]
    if ecfg.get("implicit"):
        from liquid import Mode

        kw: dict = {
            "extra": ecfg["extra"], "tolerance": {"strict": Mode.STRICT, "lax": Mode.LAX, "warn": Mode.WARN}[ecfg["mode"]],
            "undefined": envs.undefined_of(ecfg.get("undef", "default")), "strict_filters": ecfg.get("sf", True),
            "tag_start_string": delims[0], "tag_end_string": delims[1], "statement_start_string": delims[2], "statement_end_string": delims[3],
        }
        if len(delims) > 4:
            kw.update(template_comments=True, comment_start_string=delims[4], comment_end_string=delims[5])
        return _Implicit(kw)
    partial_src, _ = substitute(PARTIAL, delims)
    cfg = cfg_for(delims, mode=ecfg["mode"], extra=ecfg["extra"], twice=False)
    cfg.pop("flags", None)  # plain Environment instances of one and the same class (make_env subclasses when flags are set)
    cfg["undefined"] = ecfg.get("undef", "default")
    cfg["strict_filters"] = ecfg.get("sf", True)
    env = envs.make_env(cfg, {"p": partial_src})
    return env


_NONCE = [0]
_NONCE_RE = re.compile(r"~N\d+x\d+$")


def _strip_nonce(o: tuple) -> tuple:
    if o and o[0] == "ok" and isinstance(o[1], str):
        return (o[0], _NONCE_RE.sub("", o[1]), *o[2:])
    return o


def run_history(envcfgs: list, ops: list, only: int | None = None) -> dict:
    """Run the operations (all, or only those of environment ``only``); returns {op index: outcome}.

    Every parsed source ends with a literal text nonce that is unique to the pass, so that no cache keyed by
    source text that survives from an earlier pass or case can make two passes agree by accident.
    """
    live: dict = {}
    slots: dict = {}
    out: dict = {}
    _NONCE[0] += 1
    nonce = f"{os.getpid()}x{_NONCE[0]}"  # one per pass: the same template has the same text for every environment of a pass
    for idx, op in enumerate(ops):
        kind, e = op[0], op[1]
        if only is not None and e != only:
            continue
        if kind == "create":
            made = oc.outcome_of(lambda: build_env(envcfgs[e]))  # noqa: B023
            if made[0] == "ok":
                live[e] = made[1]
            else:
                out[idx] = oc.short(made)  # (construction failures are judged by the rewrite relation)
            continue
        env = live.get(e)
        if env is None:
            continue
        if isinstance(env, _Implicit) and kind in ("add_filter", "add_tag", "replace_tag"):
            continue  # (implicit environments are shared by documentation: registering on one is not a private act)
        if kind == "add_filter":
            env.add_filter("twice", envs.TwiceFilter())
        elif kind == "add_tag":
            env.add_tag(_mytag_class())
        elif kind == "replace_tag":
            env.add_tag(_loud_echo_class())
        elif kind == "parse":
            _, _, tid, slot = op
            src, collide = substitute(TEMPLATES[tid], POOL[envcfgs[e]["delims"]])
            if collide:
                continue
            src += f"~N{nonce}"
            o = oc.outcome_of(lambda: env.from_string(src))  # noqa: B023
            if o[0] == "ok":
                slots[(e, slot)] = o[1]
                out[idx] = ("parsed",)
            else:
                slots.pop((e, slot), None)
                out[idx] = oc.short(o)
        elif kind == "render":
            _, _, slot, did = op
            t = slots.get((e, slot))
            if t is None:
                continue
            out[idx] = _strip_nonce(oc.short(oc.outcome_of(lambda: t.render(**DATAS[did]))))  # noqa: B023
    return out


def alone(payload):
    """Entry point for vf.isolate: one environment's own operations in a pristine process."""
    envcfgs, ops, e = payload
    return run_history(envcfgs, ops, only=e)


def _clear_caches() -> None:
    """Empty every functools cache of the library (whatever it is called today); other memos are only out of reach
    of the pristine-process comparison."""
    import sys

    for name, mod in list(sys.modules.items()):
        if name == "liquid" or name.startswith("liquid."):
            for attr in list(vars(mod).values()):
                clear = getattr(attr, "cache_clear", None)
                if callable(clear) and callable(attr) and not isinstance(attr, type):
                    clear()


def eval_history(case) -> Verdict:
    v = Verdict()
    envcfgs, ops = case["envs"], case["ops"]
    _clear_caches()
    together = run_history(envcfgs, ops)
    used = sorted({op[1] for op in ops})
    for e in used:
        if case.get("isolated"):
            want = isolate.isolated("vf.props.c11_delimiters", "alone", (envcfgs, ops, e))
        else:
            _clear_caches()
            want = run_history(envcfgs, ops, only=e)
        for idx, w in want.items():
            got = together.get(idx)
            if got != w:
                op = ops[idx]
                others = sorted({tuple(POOL[envcfgs[o[1]]["delims"]]) for o in ops[:idx] if o[1] != e})
                v.fail(
                    f"history:{op[0]}:{'error' if (got or ('?',))[0] != 'ok' and w[0] in ('ok', 'parsed') else 'differs'}",
                    f"environment {e} {envcfgs[e]} (delimiters {POOL[envcfgs[e]['delims']]}), op {idx} {op}\n"
                    f"   interleaved: {got!r:.200}\n   alone:       {w!r:.200}\n   other environments' delimiters so far: {others}\n   ops: {ops[:idx + 1]}",
                )
                break
    v.nontrivial = len(used) >= 2 and sum(1 for o in ops if o[0] in ("parse", "render")) >= 3 and len(together) >= 2
    v.labels.append("history:" + ("isolated" if case.get("isolated") else "in-process"))
    v.labels.append(f"envs:{len(used)}")
    return v


def evaluate(case) -> Verdict:
    if case["kind"] == "rewrite":
        return eval_rewrite(case)
    if case["kind"] == "history":
        return eval_history(case)
    raise core.HarnessError(case["kind"])


# ---------------------------------------------------------------------------
# generators

ALPHA = list("{}%#<>[]()|\\^$.*+?/!@&~;=") + ["A", "B", "X", "Z", "-", ":", "_"]


def gen_delims(r, comments: bool) -> list:
    c = r.random()
    if c < 0.2:
        base = list(r.choice([p for p in POOL[:N_BASE] if (len(p) > 4) == comments] or POOL[:N_BASE]))
        if comments and len(base) == 4:
            base += ["{#", "#}"]
        return base
    n = 6 if comments else 4
    while True:
        out = []
        for _ in range(n):
            out.append("".join(r.choice(ALPHA) for _ in range(r.choice([1, 2, 2, 2, 3, 4]))))
        if c < 0.5:
            # keep some of the default delimiters: only one pair changes
            keep = r.choice([(0, 1), (2, 3), (4, 5)])
            for i in range(n):
                if i not in keep:
                    out[i] = DEFAULT6[i]
        if len(set(out)) == n and not any(x.endswith("-") for x in out[0::2]) and not any(x.startswith("-") for x in out[1::2]):
            return out


TEXTS = ["a", "b", " ", "\n", "x", "-", ".", "é", "%", "{", "}", "#", "<", "[", "$", "(", "*", "  "]


def profile() -> gg.Profile:
    return gg.Profile(
        nodes=list(gg.STD_NODES) + gg.EXTRA_NODES,
        partials=["p"],
        text_alphabet=TEXTS,
        ternary=True,
        logical_not=True,
        parens=True,
        bracket_roots=True,
        odd_strings=True,
        dynamic_partial_names=False,
        depth=2,
        width=4,
    )


COMMENT_TEXTS = [" c ", "", "x y", "\nnote\n", " if a ", " endif ", "-", "a - ", "{{ a }}"]


def sprinkle_comments(r, nodes: list, top: bool = True) -> None:
    """Insert template comments into blocks (not inside liquid tags, whose bodies are lines)."""
    for n in list(nodes):
        if n.get("k") in ("liquid", "raw", "comment", "doc"):
            continue
        blocks = [n.get("body"), n.get("?else")] + [e.get("body") for e in n.get("elsifs") or []] + [w.get("body") for w in n.get("whens") or []]
        for blk in blocks:
            if isinstance(blk, list):
                sprinkle_comments(r, blk, False)
                if r.random() < 0.3:
                    blk.insert(r.randint(0, len(blk)), {"k": "tcomment", "v": r.choice(COMMENT_TEXTS)})
    if top:
        for _ in range(r.choice([0, 1, 2])):
            nodes.insert(r.randint(0, len(nodes)), {"k": "tcomment", "v": r.choice(COMMENT_TEXTS)})


@st.composite
def rewrite_cases(draw):
    r = core.rng(draw)
    comments = r.random() < 0.4
    main = gg.Gen(r, profile()).template()
    prof_p = profile()
    prof_p.partials, prof_p.in_partial = [], "render"
    partials = {"p": gg.Gen(r, prof_p).template()}
    if comments:
        sprinkle_comments(r, main)
    d1 = list(DEFAULT6 if comments else DEFAULT4) if r.random() < 0.6 else gen_delims(r, comments)
    d2 = gen_delims(r, comments)
    case = {"kind": "rewrite", "main": main, "partials": partials, "d1": d1, "d2": d2, "datas": [gd.DataGen(r).data() for _ in range(2)]}
    return case


@st.composite
def lookalike_cases(draw):
    """Original: default delimiters, stand-in text.  Rewritten: custom delimiters, text that looks like default delimiters."""
    r = core.rng(draw)
    main = gg.Gen(r, profile()).template()
    for _ in range(r.choice([1, 2, 3])):
        main.insert(r.randint(0, len(main)), {"k": "text", "v": r.choice(["", "a", " "]) + r.choice(sorted(LOOKALIKE)) + r.choice(["", " x ", "y"])})
    pool = [p for p in POOL[1:N_BASE] if not any(x in "".join(p) for x in ("{{", "{%", "}}", "%}", "{#"))]
    d2 = list(r.choice(pool))
    return {"kind": "rewrite", "lookalike": True, "main": main, "partials": {"p": []}, "d1": list(DEFAULT4), "d2": d2[:4], "datas": [gd.DataGen(r).data()]}


def _lookalike_real(case):
    """The rewritten side of a look-alike case carries the real text."""
    return case


@st.composite
def history_cases(draw):
    r = core.rng(draw)
    k = r.choice([2, 2, 3, 4])
    envcfgs = [{"delims": r.randrange(N_BASE if r.random() < 0.8 else len(POOL)), "mode": r.choice(["strict", "strict", "lax"]), "extra": r.random() < 0.7} for _ in range(k)]
    for ec in envcfgs:
        if r.random() < 0.3:
            ec["undef"] = r.choice(["strict", "strict", "falsy"])
        if r.random() < 0.3:
            ec["sf"] = False
    implicit = r.random() < 0.2
    if implicit:
        # templates made by liquid.Template(): one implicit environment per set of keyword arguments
        for ec in envcfgs:
            ec["implicit"] = True
            if ec["delims"] >= N_BASE:
                ec["delims"] = r.randrange(N_BASE)
    twins = not implicit and r.random() < 0.25
    if twins:
        # identically configured environments that differ only in what is registered on them afterwards
        envcfgs[1] = dict(envcfgs[0])
    elif r.random() < 0.6:
        # near-identical configurations: the likeliest victims of a cache-key mistake
        envcfgs[1] = dict(envcfgs[0])
        which = r.choice(["delims", "mode", "extra", "undef", "sf"])
        if r.random() < 0.25:
            # one character moved across a delimiter boundary
            base = r.choice(sorted(k for k in SIBLINGS if SIBLINGS[k]))
            envcfgs[0]["delims"] = base
            envcfgs[1] = dict(envcfgs[0], delims=r.choice(ALIASES[base] if ALIASES[base] and r.random() < 0.5 else SIBLINGS[base]))
            if r.random() < 0.5:
                envcfgs[0], envcfgs[1] = envcfgs[1], envcfgs[0]
        elif which == "delims":
            envcfgs[1]["delims"] = r.randrange(len(POOL))
        elif which == "mode":
            envcfgs[1]["mode"] = "lax" if envcfgs[0]["mode"] == "strict" else "strict"
        elif which == "undef":
            envcfgs[1]["undef"] = "default" if envcfgs[0].get("undef", "default") != "default" else "strict"
        elif which == "sf":
            envcfgs[1]["sf"] = not envcfgs[0].get("sf", True)
        else:
            envcfgs[1]["extra"] = not envcfgs[0]["extra"]
    ops = [["create", e] for e in range(k)]
    r.shuffle(ops)
    body = []
    # a history works on one to three templates, so that different environments meet on the same source text
    tids = r.sample(range(len(TEMPLATES)), r.choice([1, 2, 2, 3]))
    if any("undef" in ec or "sf" in ec for ec in envcfgs) and r.random() < 0.7:
        tids = [10, *tids[:1]]  # the template that reads a missing variable and applies a missing filter
    if twins:
        what = r.choice(["replace_tag", "replace_tag", "add_tag", "add_filter"])
        body.append([what, r.choice([0, 1])])
        tids = [{"replace_tag": len(TEMPLATES) - 1, "add_tag": 3, "add_filter": 2}[what], *tids[:1]]
    for _ in range(r.randint(4, 14)):
        e = r.randrange(k)
        c = r.random()
        if c < 0.45:
            body.append(["parse", e, r.choice(tids), r.randrange(3)])
        elif c < 0.85:
            body.append(["render", e, r.randrange(3), r.randrange(len(DATAS))])
        elif c < 0.91:
            body.append(["add_filter", e])
        elif c < 0.96:
            body.append(["add_tag", e])
        else:
            body.append(["replace_tag", e])
    # creation may be late: interleave the remaining creates into the body
    first = ops.pop(0)
    for op in ops:
        body.insert(r.randint(0, max(0, len(body) // 2)), op)
    return {"kind": "history", "envs": envcfgs, "ops": [first, *body], "isolated": False}


def pair_histories(quick: bool = False):
    """Two environments (explicit, or the implicit ones of liquid.Template()) that differ in exactly one setting, used in turn."""
    deltas = [("sf", False), ("undef", "strict"), ("undef", "falsy"), ("mode", "lax"), ("extra", False)]
    for implicit in (True, False):
        for base in (0, 1, 4, 6):
            for key, val in deltas:
                a = {"delims": base, "mode": "strict", "extra": True}
                if implicit:
                    a["implicit"] = True
                b = dict(a, **{key: val})
                for tid in (10, 0, 3, 2, 12):
                    for first in (0, 1):
                        e0, e1 = first, 1 - first
                        ops = [["create", e0], ["parse", e0, tid, 0], ["render", e0, 0, 0], ["create", e1], ["parse", e1, tid, 0],
                               ["render", e0, 0, 1], ["render", e1, 0, 0], ["parse", e0, tid, 1], ["render", e0, 1, 0], ["render", e1, 0, 1]]
                        yield {"kind": "history", "envs": [a, b], "ops": ops, "isolated": False}
            for k, sidx in enumerate(SIBLINGS.get(base, [])):
                if quick and sidx not in ALIASES.get(base, []) and k % 3:
                    continue  # (quick: the siblings that spell the same joined text, and a third of the others)
                a = {"delims": base, "mode": "strict", "extra": True}
                b = dict(a, delims=sidx)
                if implicit:
                    a["implicit"] = b["implicit"] = True
                for tid in (0, 1):
                    for first in (0, 1):
                        e0, e1 = first, 1 - first
                        ops = [["create", e0], ["create", e1], ["parse", e0, tid, 0], ["parse", e1, tid, 0], ["render", e0, 0, 0], ["render", e1, 0, 0]]
                        yield {"kind": "history", "envs": [a, b], "ops": ops, "isolated": True}


def campaign(ctx: core.Ctx, tier: str, shard: int, nshards: int) -> None:
    quick = tier == "quick"
    for i, case in enumerate(pair_histories(quick)):
        if i % nshards == shard:
            ctx.run(case, enumerated=True)
    core.drive(rewrite_cases(), ctx.run, n=(3200 if quick else 80000) // nshards, seed=core.sub_seed(ctx.seed, shard))
    core.drive(lookalike_cases(), ctx.run, n=(800 if quick else 16000) // nshards, seed=core.sub_seed(ctx.seed, shard, 1))

    count = [0]

    def run_hist(case):
        # every sixteenth history is compared with a pristine forked process (no memo or cache of any kind can be
        # shared with it), the others with a cache-cleared re-run in this process
        count[0] += 1
        sib = any(a["delims"] in SIBLINGS.get(b["delims"], ()) for a in case["envs"] for b in case["envs"])
        alias = any(a["delims"] in ALIASES.get(b["delims"], ()) for a in case["envs"] for b in case["envs"])
        if count[0] % 16 == 1 or (alias and count[0] % 3 == 0) or (sib and count[0] % 8 == 0):
            # (delimiter sets one boundary shift apart: a memo keyed by joined strings need not be a functools cache)
            case = dict(case, isolated=True)
        ctx.run(case)

    core.drive(history_cases(), run_hist, n=(1600 if quick else 40000) // nshards, seed=core.sub_seed(ctx.seed, shard, 2))


def finish_kwargs(ctx: core.Ctx, tier: str) -> dict:
    return {
        "rule": (
            "(a) Generated templates (with a generated partial, and template comments in 40% of cases) are written "
            "with placeholder delimiters and instantiated twice: with the default delimiters (60%) or random ones, and "
            "with random ones - strings of 1-4 characters over punctuation, regex metacharacters and letters, "
            "sometimes changing only one pair, sometimes from a fixed pool. A case is discarded as a collision when "
            "any delimiter string occurs in either source anywhere but at its placements (the liquid-tag comment "
            "marker the library derives from the comment delimiter counts as a placement). Both environments must "
            "give the same result (text, or error class) for two data sets. A derived relation renders text that "
            "looks like default delimiters under custom delimiters and compares with the default-delimiter original "
            "holding same-length stand-ins. (b) Histories of 5-18 operations over 2-4 environments (10 delimiter "
            "sets incl. pairs sharing tag or statement delimiters, strict/lax, extra on/off; half of the histories "
            "use two configurations differing in one field, a quarter two identical ones of which one gets a tag or filter "
            "added or replaced; each history works on 1-3 of 13 templates so that "
            "environments meet on the same source text): create, parse a template into a slot, render a "
            "slot, add a filter, add a tag, replace a built-in tag under its own name. Every result must equal the result of that environment's own operations "
            "run alone (every sixteenth history: in a pristine forked process; the others: re-run in-process after clearing "
            "the lexer/parser memos, every parsed source carrying a process-unique text nonce so that a cache keyed by "
            "source text cannot make the two passes agree by accident). "
            "Non-trivial: (a) different delimiter sets and a non-empty successful render; (b) at least two "
            "environments and three parse/render operations."
        ),
        "assumptions": [
            "non-colliding is decided by an occurrence scan of the final source, which also rejects delimiter strings that are substrings of one another",
            "start delimiters ending in '-' and end delimiters starting with '-' count as colliding (the hyphen there is whitespace control)",
        ],
    }
