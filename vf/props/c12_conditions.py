"""C12 - conditions follow Liquid truthiness and operator rules (reference model)."""

from __future__ import annotations

import itertools
from decimal import Decimal

from hypothesis import strategies as st

from .. import core
from .. import envs
from .. import outcome as oc
from ..core import Verdict
from ..gen import data as gd
from ..ref import logic as L

PID = "C12"
SHARDS = {"quick": 8, "thorough": 16}

T = gd.tagged
V = [
    0, 1, -1, 2, 0.0, 1.0, 1.5, T("decimal", v="1"), T("decimal", v="1.5"), True, False, None, T("undef"),
    "", " ", "a", "1", "ab", " \n", [], [1], ["a"], [None], [1, "a"], [[]], {}, {"a": 1}, {"1": 1},
    T("range", a=1, b=3), T("range", a=1, b=0), T("range", a=0, b=0),
    T("empty"), T("blank"),
]
OPS = ["==", "!=", "<>", "<", ">", "<=", ">=", "contains"]
CTXS = ["if", "unless", "elsif", "case", "ternary"]

CFG = {"mode": "strict", "flags": {"logical_not_operator": True, "logical_parentheses": True, "ternary_expressions": True}, "twice": False}


def to_model(v):
    if isinstance(v, dict) and "$" in v:
        t = v["$"]
        if t == "undef":
            return L.UNDEF
        if t == "empty":
            return L.EMPTY
        if t == "blank":
            return L.BLANK
        return gd.decode(v)
    if isinstance(v, list):
        return [to_model(x) for x in v]
    return v


def literal_of(v):
    if isinstance(v, dict) and v.get("$") in ("empty", "blank"):
        return v["$"]
    if v is None:
        return "nil"
    if v is True:
        return "true"
    if v is False:
        return "false"
    if isinstance(v, (int, float)):
        return repr(v)
    if isinstance(v, str) and "\n" not in v:
        return f"'{v}'"
    if isinstance(v, dict) and v.get("$") == "range":
        return f"({v['a']}..{v['b']})"
    return None


def _operand(v, name: str, form: str, data: dict) -> str:
    lit = literal_of(v)
    special = isinstance(v, dict) and v.get("$") in ("empty", "blank")
    if special or (form == "lit" and lit is not None):
        return lit
    if not (isinstance(v, dict) and v.get("$") == "undef"):
        data[name] = gd.decode(v)
    return name


def _wrap(ctx: str, cond: str) -> str:
    if ctx == "if":
        return "{% if " + cond + " %}T{% else %}F{% endif %}"
    if ctx == "unless":
        return "{% unless " + cond + " %}F{% else %}T{% endunless %}"
    if ctx == "elsif":
        return "{% if false %}X{% elsif " + cond + " %}T{% else %}F{% endif %}"
    if ctx == "ternary":
        return "{{ 'T' if " + cond + " else 'F' }}"
    raise ValueError(ctx)


def _observe(src: str, data: dict):
    env = envs.make_env(CFG)
    o = oc.render(src, lambda: env.from_string(src), **data)
    if o[0] == "ok":
        if o[1] == "T":
            return True
        if o[1] == "F":
            return False
        return ("odd-output", o[1])
    if o[0] == "liquid":
        return L.TYPE_ERROR if o[1] == "LiquidTypeError" else ("liquid", o[1])
    return ("crash", o[1], o[2])


def evaluate(case) -> Verdict:
    v = Verdict()
    kind = case["kind"]
    data: dict = {}
    if kind == "cmp":
        a, b, op, ctx = case["a"], case["b"], case["op"], case["ctx"]
        ea = _operand(a, "va", case.get("form", "var"), data)
        eb = _operand(b, "vb", case.get("form", "var"), data)
        ma, mb = to_model(a), to_model(b)
        if ctx == "case":
            src = "{% case " + ea + " %}{% when " + eb + " %}T{% else %}F{% endcase %}"
            expected = L.eq(ma, mb)
            if isinstance(a, dict) and a.get("$") in ("empty", "blank"):
                expected = L.DONT_CARE
        else:
            src = _wrap(ctx, f"{ea} {op} {eb}")
            expected = L.compare(op, ma, mb)
        got = _observe(src, data)
        if not L.accepts(expected, got):
            v.fail(
                f"cmp:{op if ctx != 'case' else 'case-eq'}:{L.kind(ma)}/{L.kind(mb)}",
                f"{src} with {data!r:.120}: expected {expected}, observed {got}",
            )
        v.nontrivial = L.kind(ma) != L.kind(mb) and expected is not L.DONT_CARE
        v.labels.append("cmp:" + ("dont-care" if expected is L.DONT_CARE else "decided"))
        v.info = src
    elif kind == "truth":
        a, ctx = case["a"], case["ctx"]
        ea = _operand(a, "va", case.get("form", "var"), data)
        ma = to_model(a)
        if ma is L.EMPTY or ma is L.BLANK:
            v.labels.append("truth:skipped")
            return v
        src = _wrap(ctx, ea)
        got = _observe(src, data)
        expected = L.truthy(ma)
        if got != expected:
            v.fail(f"truthiness:{L.kind(ma)}", f"{src} with {data!r:.100}: expected {expected}, observed {got}")
        v.nontrivial = True
        v.labels.append("truth")
    elif kind == "tree":
        toks = case["tokens"]
        forms_t = ["true", "0", "''", "x", "'a'", "(1..2)"]
        forms_f = ["false", "nil", "y", "z"]
        data = {"x": 1, "z": False}
        parts, model_toks = [], []
        i = 0
        for tok in toks:
            if tok is True:
                parts.append(forms_t[(i + len(toks)) % len(forms_t)])
                model_toks.append(True)
                i += 1
            elif tok is False:
                parts.append(forms_f[(i + len(toks)) % len(forms_f)])
                model_toks.append(False)
                i += 1
            else:
                parts.append(tok)
                model_toks.append(tok)
        cond = " ".join(parts)
        # the lexer takes "(" followed later by ".." for a range: avoid range operands inside groups
        if "(" in toks:
            cond = cond.replace("(1..2)", "1")
        src = _wrap(case["ctx"], cond)
        expected = L.eval_flat(model_toks)
        got = _observe(src, data)
        if got != expected:
            v.fail("logic-tree", f"{src}: expected {expected}, observed {got}")
        ops = [t for t in toks if t in ("and", "or")]
        v.nontrivial = len(ops) >= 2 and any(a == "or" and b == "and" for a, b in zip(ops, ops[1:])) or "(" in toks or "not" in toks
        v.labels.append("tree")
        v.info = src
    else:
        raise core.HarnessError(kind)
    return v


# ---------------------------------------------------------------------------


def _flat_sequences(maxn: int):
    """Operand/operator sequences with at most one parenthesised span and
    `not` only directly before a literal or a group (always itself grouped
    when something follows, because its binding strength is undocumented)."""
    for n in range(1, maxn + 1):
        for vals in itertools.product([True, False], repeat=n):
            for ops in itertools.product(["and", "or"], repeat=n - 1):
                base = []
                for i, val in enumerate(vals):
                    if i:
                        base.append(ops[i - 1])
                    base.append(val)
                yield list(base)
                # one grouped span [i..j] of operands, optionally negated
                for i in range(n):
                    for j in range(i, n):
                        if i == 0 and j == n - 1 and n > 1:
                            pass
                        lo, hi = 2 * i, 2 * j
                        grouped = base[:lo] + ["("] + base[lo : hi + 1] + [")"] + base[hi + 1 :]
                        if j > i:
                            yield grouped
                        neg = base[:lo] + ["(", "not", "("] + base[lo : hi + 1] + [")", ")"] + base[hi + 1 :]
                        yield neg


def _enumerate(ctx: core.Ctx, shard: int, nshards: int, tier: str) -> None:
    quick = tier == "quick"
    idx = 0
    ctxs = CTXS
    for a in V:
        for c in ["if", "unless", "elsif", "ternary"]:
            for form in ("var", "lit"):
                idx += 1
                if idx % nshards == shard:
                    ctx.run({"kind": "truth", "a": a, "ctx": c, "form": form}, enumerated=True)
    for ai, a in enumerate(V):
        for bi, b in enumerate(V):
            for oi, op in enumerate(OPS):
                for ci, c in enumerate(ctxs):
                    if c == "case" and op != "==":
                        continue
                    if quick and c != "if" and (ai + bi + oi + ci) % 4:
                        continue
                    for form in ("var", "lit"):
                        if quick and form == "lit" and (ai + bi) % 2:
                            continue
                        idx += 1
                        if idx % nshards == shard:
                            ctx.run({"kind": "cmp", "a": a, "b": b, "op": op, "ctx": c, "form": form}, enumerated=True)
    for toks in _flat_sequences(4 if quick else 5):
        idx += 1
        if idx % nshards == shard:
            ctx.run({"kind": "tree", "tokens": toks, "ctx": ["if", "unless", "elsif", "ternary"][idx % 4]}, enumerated=True)


def campaign(ctx: core.Ctx, tier: str, shard: int, nshards: int) -> None:
    _enumerate(ctx, shard, nshards, tier)


def finish_kwargs(ctx: core.Ctx, tier: str) -> dict:
    return {
        "rule": (
            f"Value lattice of {len(V)} values (ints, floats, Decimals, bools, nil, undefined, strings incl. "
            "empty/blank-like, lists, hashes, ranges, the empty/blank literals) as variables and literals x 8 "
            "operators x if/unless/elsif/case-when/ternary, compared with a reference model written from the "
            "documentation; truthiness of every value in 4 contexts; every and/or sequence of up to "
            f"{4 if tier == 'quick' else 5} operands with one parenthesised (optionally negated) span, against a "
            "right-associative equal-precedence evaluator. Non-trivial = operand kinds differ and the model "
            "decides the result (not DONT_CARE), or the tree has an 'or' before an 'and', a group or a not."
        ),
        "exhaustive": tier == "thorough",
        "assumptions": [
            "DONT_CARE (documented ambiguity, not asserted): nil/false/range vs empty/blank; bool/float membership "
            "in lists and ranges; bool operands of < > (must not be true); <= >= on incompatible but equal "
            "operands; non-collection left operand of contains; `not` followed by an ungrouped and/or",
        ],
    }
