"""C13 - loops visit exactly the documented items (reference model)."""

from __future__ import annotations

import itertools
import re

from hypothesis import strategies as st

from .. import core
from .. import envs
from .. import outcome as oc
from ..core import Verdict
from ..ref import loops as R

PID = "C13"
SHARDS = {"quick": 8, "thorough": 16}
CFG = {"mode": "strict", "twice": False}
HUGE = 10**20


def _coll(spec) -> tuple:
    """(python value, liquid expression, data) for a collection spec."""
    t, n = spec["t"], spec.get("n", 0)
    if t == "list":
        return [10 + i for i in range(n)], "coll", True
    if t == "dict":
        return {chr(97 + i): i for i in range(n)}, "coll", True
    if t == "range":
        return range(1, n + 1), f"(1..{n})", False
    if t == "rangevar":
        return range(1, n + 1), "coll", True
    if t == "str":
        return "s" * n, "coll", True
    if t == "nil":
        return None, "coll", True
    if t == "int":
        return 7, "coll", True
    raise core.HarnessError(t)


def _arg(name: str, val, form: str, data: dict) -> str:
    if val == "continue":
        return "continue"
    if form == "lit":
        return str(val)
    data[name] = str(val) if form == "str" else val
    return name


BODY = "[{{ i | join: '=' }}:{{ forloop.index }}:{{ forloop.index0 }}:{{ forloop.rindex }}:{{ forloop.rindex0 }}:{{ forloop.first }}:{{ forloop.last }}:{{ forloop.length }}]"
TBODY = (
    "{{ i | join: '=' }}:{{ tablerowloop.index }}:{{ tablerowloop.index0 }}:{{ tablerowloop.rindex }}:"
    "{{ tablerowloop.rindex0 }}:{{ tablerowloop.first }}:{{ tablerowloop.last }}:{{ tablerowloop.length }}"
    "|{{ tablerowloop.col }}:{{ tablerowloop.col0 }}:{{ tablerowloop.col_first }}:{{ tablerowloop.col_last }}:{{ tablerowloop.row }}"
)


def _build_for(case) -> tuple[str, dict, list, bool]:
    """Source, data, expected alternatives (list of strings), asserted?"""
    data: dict = {}
    coll, expr, is_var = _coll(case["coll"])
    if is_var:
        data["coll"] = coll
    items = R.items_of(coll)
    n = len(items)
    src = []
    expected = [""]
    cont_index = 0
    cont_valid = True
    asserted = True
    for li, lp in enumerate(case["loops"]):
        off, lim = lp.get("offset"), lp.get("limit")
        args = ""
        if lim is not None:
            args += " limit: " + _arg(f"lim{li}", lim, lp.get("lform", "lit"), data)
        if off is not None:
            args += " offset: " + _arg(f"off{li}", off, lp.get("oform", "lit"), data)
        if lp.get("rev"):
            args += " reversed"
        body = BODY
        if lp.get("brk") is not None:
            body = "{% if forloop.index0 == " + str(lp["brk"]) + " %}{% break %}{% endif %}" + body
        if lp.get("cnt") is not None:
            body = "{% if forloop.index0 == " + str(lp["cnt"]) + " %}{% continue %}{% endif %}" + body
        inner = lp.get("inner")
        if inner:
            body += "{% for j in (1.." + str(inner) + ") %}<{{ j }}/{{ forloop.parentloop.index }}/{{ forloop.parentloop.length }}>{% endfor %}"
        src.append("{% for i in " + expr + args + " %}" + body + "{% else %}ELSE{% endfor %}|")
        if off == "continue":
            frm = cont_index
            if not cont_valid:
                asserted = False
        else:
            frm = off or 0
        idx = R.segment(n, frm, lim)
        if frm < 0 and lim is not None:
            asserted = asserted  # from/to arithmetic is the reference's own; asserted
        cont_index = frm + len(idx)
        cont_valid = frm >= 0
        seg = [items[i] for i in idx]
        if lp.get("rev"):
            seg = seg[::-1]
        out = ""
        if not seg:
            out = "ELSE"
        else:
            for pos, item in enumerate(seg):
                # the continue test comes first in the generated body
                if lp.get("cnt") is not None and pos == lp["cnt"]:
                    continue
                if lp.get("brk") is not None and pos == lp["brk"]:
                    break
                out += f"[{R.show(item)}:{R.helpers(pos, len(seg))}]"
                if inner:
                    out += "".join(f"<{j}/{pos + 1}/{len(seg)}>" for j in range(1, inner + 1))
        expected = [e + out + "|" for e in expected]
    return "".join(src), data, expected, asserted


def _build_tablerow(case) -> tuple[str, dict, object, bool]:
    data: dict = {}
    coll, expr, is_var = _coll(case["coll"])
    if is_var:
        data["coll"] = coll
    items = R.items_of(coll)
    lp = case["loops"][0]
    off, lim, cols = lp.get("offset"), lp.get("limit"), lp.get("cols")
    args = ""
    if cols is not None:
        args += " cols: " + _arg("vc", cols, lp.get("cform", "lit"), data)
    if lim is not None:
        args += " limit: " + _arg("vl", lim, lp.get("lform", "lit"), data)
    if off is not None:
        args += " offset: " + _arg("vo", off, lp.get("oform", "lit"), data)
    body = TBODY
    if lp.get("brk") is not None:
        body = "{% if tablerowloop.index0 == " + str(lp["brk"]) + " %}{% break %}{% endif %}" + body
    src = "{% tablerow i in " + expr + args + " %}" + body + "{% endtablerow %}"
    idx = R.segment(len(items), off or 0, lim)
    seg = [items[i] for i in idx]
    ncols = cols if cols is not None else len(seg)
    # cols <= 0 (or a non-numeric cols, which counts as 0): there is no row break, so every visited item gets
    # its own column of a single row - the only reading under which the helpers stay consistent with the items
    asserted = True
    rows: list = []
    for pos, item in enumerate(seg):
        if ncols >= 1:
            col = pos % ncols + 1
            row = pos // ncols + 1
        else:
            col, row = pos + 1, 1
        if col == 1 or not rows:
            rows.append((row, []))
        cell = ""
        broke = lp.get("brk") is not None and pos == lp["brk"]
        if not broke:
            cell = (
                f"{R.show(item)}:{R.helpers(pos, len(seg))}|{col}:{col - 1}:{R.b(col == 1)}:{R.b(col == ncols)}:{row}"
            )
        rows[-1][1].append((col, cell))
        if broke:
            # the row is closed (and the next one opened) before the loop stops
            if ncols >= 1 and col == ncols and pos != len(seg) - 1:
                rows.append((row + 1, []))
            break
    if not rows:
        rows = [(1, [])]
    return src, data, rows, asserted


_TR = re.compile(r'<tr class="row(\d+)">(.*?)</tr>', re.S)
_TD = re.compile(r'<td class="col(\d+)">(.*?)</td>', re.S)


def _parse_table(html: str):
    rows = []
    rest = _TR.sub("", html)
    if rest.strip():
        return None
    for m in _TR.finditer(html):
        cells = [(int(c.group(1)), c.group(2)) for c in _TD.finditer(m.group(2))]
        if _TD.sub("", m.group(2)).strip():
            return None
        rows.append((int(m.group(1)), cells))
    return rows


WRAPS = {
    "none": ("", ""), "if": ("{% if true %}", "{% endif %}"), "for": ("{% for w in (1..1) %}", "{% endfor %}"),
    "case": ("{% case 1 %}{% when 1 %}", "{% endcase %}"), "unless": ("{% unless false %}", "{% endunless %}"),
    "capture": ("{% capture c %}", "{% endcapture %}{{ c }}"),
}
SILENT_BODIES = {"assign": "{% assign q = i %}", "blank": " \n ", "break": "{% break %}", "empty": "", "text": "x"}


def eval_else(case) -> Verdict:
    """The else block is rendered exactly when no item is visited - wherever the loop stands and whatever its body."""
    v = Verdict()
    env = envs.make_env(CFG)
    n = case["n"]
    tag = case.get("tag", "for")
    opener, closer = WRAPS[case["wrap"]]
    body = SILENT_BODIES[case["body"]]
    args = "".join(f" {k}: {val}" for k, val in case.get("args", []))
    if tag == "for":
        src = opener + "{% for i in items" + args + " %}" + body + "{% else %}E{% endfor %}" + closer + "|"
    else:
        src = opener + "{% tablerow i in items" + args + " %}" + body + "{% endtablerow %}" + closer + "|"
    items = list(range(n))
    idx = R.segment(n, dict(case.get("args", [])).get("offset", 0) or 0, dict(case.get("args", [])).get("limit"))
    visited = len(idx)
    o = oc.render(case, lambda: env.from_string(src), items=items)
    if o[0] != "ok":
        v.fail(f"else:raises:{o[1]}", f"{src!r} items={items}: {oc.short(o)!r:.150}")
    elif tag == "for":
        per = {"text": "x"}.get(case["body"], "")
        want = ("E" if visited == 0 else per * (1 if case["body"] == "break" else visited)) + "|"
        if case["body"] == "break":
            want = ("E" if visited == 0 else "") + "|"
        if o[1].replace("\n", "").replace(" ", "") != want:
            v.fail(f"else:{'missing' if visited == 0 else 'spurious'}:{case['wrap']}", f"{src!r} with {n} items ({visited} visited): expected {want!r}, observed {o[1]!r}")
    v.nontrivial = visited == 0
    v.labels.append("else:" + case["wrap"])
    return v


# ranges whose bounds change between evaluations of one and the same expression: inside an outer loop, and from one render
# of the parsed template to the next
DEP_RANGES = ["(1..i)", "(i..3)", "(i..n)", "(m..i)", "(i..i)", "(0..i)", "(i..2)", "(n..i)", "(1..n)", "(m..n)"]
DEP_VARS = {"i", "n", "m"}


def _range_items(expr: str, env_: dict) -> list:
    a, b = expr[1:-1].split("..")
    lo = env_[a] if a in env_ else int(a)
    hi = env_[b] if b in env_ else int(b)
    return list(range(lo, hi + 1))


def eval_dependent(case) -> Verdict:
    v = Verdict()
    env = envs.make_env(CFG)
    expr, inner, extra = case["range"], case["inner"], case.get("args", "")
    if inner == "for":
        body = "{% for j in " + expr + extra + " %}{{ j }}:{{ forloop.length }},{% else %}e{% endfor %}"
    elif inner == "tablerow":
        body = "{% tablerow j in " + expr + extra + " %}{{ j }}:{{ tablerowloop.length }},{% endtablerow %}"
    else:  # the range as a value: assigned, then iterated and measured
        body = "{% assign r = " + expr + " %}{% for j in r" + extra + " %}{{ j }}:{{ forloop.length }},{% else %}e{% endfor %}"
    src = "{% for i in (1..k) %}" + body + "|{% endfor %}"
    p = oc.outcome_of(lambda: env.from_string(src))
    if p[0] != "ok":
        v.fail(f"dependent:parse:{p[1]}", f"{src!r}: {oc.short(p)!r:.150}")
        return v

    def want(data) -> str:
        out = ""
        for i in range(1, data["k"] + 1):
            items = _range_items(expr, dict(data, i=i))
            if "reversed" in extra:
                items = items[::-1]
            if "limit: 2" in extra:
                items = items[:2]
            if inner == "tablerow":
                cells = "".join(f"{j}:{len(items)}," for j in items)
                out += ("X" if items else "E") + cells + "|"
            else:
                out += ("".join(f"{j}:{len(items)}," for j in items) or "e") + "|"
        return out

    def norm(text: str) -> str:
        if inner != "tablerow":
            return text
        import re

        rows = []
        for part in text.split("|")[:-1]:
            cells = "".join(re.findall(r"<td[^>]*>(.*?)</td>", part, flags=re.S))
            rows.append(("X" if cells else "E") + cells)
        return "|".join(rows) + "|"

    # the same parsed template, rendered one data set after the other
    for data in case["datas"]:
        o = oc.render(case, lambda: p[1], **data)  # noqa: B023
        if o[0] != "ok":
            v.fail(f"dependent:raises:{o[1]}", f"{src!r} {data}: {oc.short(o)!r:.150}")
            break
        if norm(o[1]) != want(data):
            which = "first-render" if data is case["datas"][0] else "later-render"
            v.fail(f"dependent:{inner}:{which}", f"{src!r} with {data} (after {case['datas'][: case['datas'].index(data)]}):\n   expected {want(data)!r}\n   observed {norm(o[1])!r}")
            break
    v.nontrivial = bool(DEP_VARS & set(expr[1:-1].split("..")))
    v.labels.append("dependent-range")
    return v


def eval_aborted(case) -> Verdict:
    """A loop that is left through an error (tolerated in lax mode) must not stay on the loop stack."""
    v = Verdict()
    tag_o, tag_c = ("{% for a in (1..3) %}", "{% endfor %}") if case["outer"] == "for" else ("{% tablerow a in (1..3) %}", "{% endtablerow %}")
    if case["bad"] == "depth":
        # the loop is left while it is being entered: a nest one to three levels deeper than the context depth limit allows
        env = envs.make_env({"mode": "lax", "twice": False, "limits": {"context_depth_limit": case["limit"]}})
        room = next(d for d in range(1, 40) if "!" not in env.from_string("{% for a in (1..1) %}" * d + "!" + "{% endfor %}" * d).render())
        d = room + case["over"]
        head = "".join((tag_o if (i + case["over"]) % 2 or case["outer"] == "for" else "{% for a in (1..3) %}") for i in range(d))
        src0 = head + "x"
        for i in reversed(range(d)):
            src0 += tag_c if (i + case["over"]) % 2 or case["outer"] == "for" else "{% endfor %}"
        tag_o = tag_c = bad = ""
    else:
        env = envs.make_env({"mode": "lax", "twice": False})
        bad = {"filter": "{{ 1 | divided_by: 0 }}", "limit": "{% for z in items limit: 'x' %}{% endfor %}", "break-ok": "{% break %}"}[case["bad"]]
        src0 = "x"
    src = tag_o + src0 + bad + tag_c + "{% for j in (1..2) %}[{{ forloop.parentloop.index }}|{{ forloop.parentloop.length }}|{{ forloop.index }}]{% endfor %}"
    o = oc.render(case, lambda: env.from_string(src), items=[1, 2])
    if o[0] != "ok":
        v.fail(f"aborted:raises:{o[1]}", f"{src!r}: {oc.short(o)!r:.150}")
    elif not o[1].endswith("[||1][||2]"):
        v.fail("aborted:stale-parentloop", f"{src!r}: the second loop has no enclosing loop, expected ...[||1][||2], observed {o[1]!r}")
    v.nontrivial = True
    v.labels.append("aborted-loop")
    return v


def evaluate(case) -> Verdict:
    if case["kind"] == "else":
        return eval_else(case)
    if case["kind"] == "aborted":
        return eval_aborted(case)
    if case["kind"] == "dependent":
        return eval_dependent(case)
    v = Verdict()
    env = envs.make_env(CFG)
    kind = case["kind"]
    if kind == "for":
        src, data, expected, asserted = _build_for(case)
        o = oc.render(case, lambda: env.from_string(src), **data)
        if o[0] == "crash":
            v.fail(f"for:crash:{o[1]}", f"{src} {data!r:.100}: {o[1]} at {o[2]}")
        elif o[0] == "liquid":
            v.fail(f"for:raises:{o[1]}", f"{src} {data!r:.100}: raised {o[1]}")
        elif asserted and o[1] not in expected:
            lp = case["loops"]
            feat = "limit0" if any(l.get("limit") == 0 for l in lp) else (
                "neg-limit" if any((l.get("limit") or 0) < 0 for l in lp) else (
                    "continue" if any(l.get("offset") == "continue" for l in lp) else "plain"))
            v.fail(f"for:items:{case['coll']['t']}:{feat}", f"{src} {data!r:.100}\n   expected {expected[0]!r}\n   observed {o[1]!r}")
        v.labels.append("for" + ("" if asserted else ":not-asserted"))
    elif kind == "tablerow":
        src, data, rows, asserted = _build_tablerow(case)
        o = oc.render(case, lambda: env.from_string(src), **data)
        if o[0] == "crash":
            v.fail(f"tablerow:crash:{o[1]}", f"{src} {data!r:.100}: {o[1]} at {o[2]}")
        elif o[0] == "liquid":
            v.fail(f"tablerow:raises:{o[1]}", f"{src} {data!r:.100}: raised {o[1]}")
        elif asserted:
            got = _parse_table(o[1])
            if got != rows:
                v.fail("tablerow:structure", f"{src} {data!r:.100}\n   expected {rows!r:.300}\n   observed {got!r:.300} from {o[1]!r:.200}")
        v.labels.append("tablerow" + ("" if asserted else ":not-asserted"))
    else:
        raise core.HarnessError(kind)
    lps = case["loops"]
    n = case["coll"].get("n", 0)

    def interesting(l):
        lim, off = l.get("limit"), l.get("offset")
        if off == "continue":
            return True
        if lim is not None and not (1 <= lim <= n - 1):
            return True
        if isinstance(off, int) and not (1 <= off <= n - 1):
            return True
        return bool(l.get("rev") and lim is not None)

    v.nontrivial = any(interesting(l) for l in lps)
    v.info = src
    return v


# ---------------------------------------------------------------------------


def _arg_values(n: int) -> list:
    return [None, *range(-3, n + 4), HUGE]


def _enumerate(ctx: core.Ctx, shard: int, nshards: int, tier: str) -> None:
    quick = tier == "quick"
    maxn = 4 if quick else 8
    kinds = ["list", "range"] if quick else ["list", "range", "rangevar", "dict", "str", "nil", "int"]
    idx = 0
    for t in kinds:
        for n in range(0, maxn + 1):
            if t in ("nil", "int") and n:
                continue
            if t == "str" and n > 2:
                continue
            vals = _arg_values(n)
            for lim, off in itertools.product(vals, vals):
                for rev in (False, True):
                    for form in (("lit", "lit"), ("var", "str")) if not quick else (("lit", "lit"),):
                        idx += 1
                        if idx % nshards != shard:
                            continue
                        if not quick and form[0] == "var" and (lim is None and off is None):
                            continue
                        ctx.run({"kind": "for", "coll": {"t": t, "n": n}, "loops": [{"limit": lim, "offset": off, "rev": rev, "lform": form[0], "oform": form[1]}]})
            # tablerow: cols x limit x offset
            for cols in [None, 0, -1, *range(1, n + 3)]:
                for lim in vals:
                    for off in (vals if not quick else [None, 0, 1, n, -1]):
                        idx += 1
                        if idx % nshards != shard:
                            continue
                        ctx.run({"kind": "tablerow", "coll": {"t": t, "n": n}, "loops": [{"cols": cols, "limit": lim, "offset": off}]})


@st.composite
def random_cases(draw):
    r = core.rng(draw)
    t = r.choice(["list", "list", "range", "rangevar", "dict", "str", "nil"])
    n = r.randint(0, 8) if t not in ("str", "nil") else r.randint(0, 2)
    vals = _arg_values(n)
    forms = ["lit", "var", "str"]
    if r.random() < 0.25:
        return {
            "kind": "tablerow",
            "coll": {"t": t, "n": n},
            "loops": [{
                "cols": r.choice([None, *range(0, n + 3), -1]), "limit": r.choice(vals), "offset": r.choice(vals),
                "cform": r.choice(forms), "lform": r.choice(forms), "oform": r.choice(forms),
                "brk": r.choice([None, None, None, 0, 1, 2]),
            }],
        }
    loops = []
    for i in range(r.choice([1, 1, 2, 3])):
        lp = {
            "limit": r.choice(vals), "offset": r.choice([*vals, "continue", "continue"]) if i else r.choice(vals),
            "rev": r.random() < 0.3, "lform": r.choice(forms), "oform": r.choice(forms),
            "brk": r.choice([None, None, None, 0, 1, 3]), "cnt": r.choice([None, None, None, 0, 1, 2]),
            "inner": r.choice([None, None, 1, 2]),
        }
        if lp["offset"] == "continue":
            lp["oform"] = "lit"
        loops.append(lp)
    return {"kind": "for", "coll": {"t": t, "n": n}, "loops": loops}


def special_cases():
    for wrap in WRAPS:
        for body in SILENT_BODIES:
            for n in (0, 1, 3):
                yield {"kind": "else", "wrap": wrap, "body": body, "n": n}
            yield {"kind": "else", "wrap": wrap, "body": body, "n": 3, "args": [["limit", 0]]}
            yield {"kind": "else", "wrap": wrap, "body": body, "n": 3, "args": [["offset", 5]]}
            yield {"kind": "else", "wrap": wrap, "body": body, "n": 2, "args": [["offset", 1], ["limit", 5]]}
    for rng in DEP_RANGES:
        for inner in ("for", "tablerow", "assigned"):
            for args in ("", " reversed", " limit: 2"):
                yield {"kind": "dependent", "range": rng, "inner": inner, "args": args,
                       "datas": [{"k": 3, "n": 2, "m": 1}, {"k": 2, "n": 4, "m": 0}, {"k": 3, "n": 0, "m": 2}]}
                yield {"kind": "dependent", "range": rng, "inner": inner, "args": args, "datas": [{"k": 1, "n": 5, "m": 5}, {"k": 4, "n": 1, "m": -1}]}
    for outer in ("for", "tablerow"):
        for bad in ("filter", "limit", "break-ok"):
            yield {"kind": "aborted", "outer": outer, "bad": bad}
        for limit in (8, 12, 30):
            for over in (0, 1, 2):
                yield {"kind": "aborted", "outer": outer, "bad": "depth", "limit": limit, "over": over}


def campaign(ctx: core.Ctx, tier: str, shard: int, nshards: int) -> None:
    for i, case in enumerate(special_cases()):
        if i % nshards == shard:
            ctx.run(case, enumerated=True)
    _enumerate(ctx, shard, nshards, tier)
    core.drive(random_cases(), ctx.run, n=(4000 if tier == "quick" else 60000) // nshards, seed=core.sub_seed(ctx.seed, shard))


def finish_kwargs(ctx: core.Ctx, tier: str) -> dict:
    maxn = 4 if tier == "quick" else 8
    return {
        "rule": (
            f"Exhaustive: collections (list, range literal" + ("" if tier == "quick" else ", range variable, hash, string, nil, int")
            + f") of length 0..{maxn} x limit in {{absent, -3..len+3, 1e20}} x offset in the same set x reversed, "
            "and tablerow with cols in {absent, 0, -1, 1..len+2}; plus random sequences of 1-3 loops sharing an "
            "offset:continue key, break/continue at a chosen index, a nested loop printing parentloop, and "
            "limit/offset/cols given as literal, int variable or numeric string; for-else with silent bodies (assign, "
            "whitespace, break, nothing) under if/for/case/unless/capture; a loop left through a tolerated error followed "
            "by a loop reading forloop.parentloop. Every loop body prints item and "
            "all helpers; the whole output is compared with the reference model's. Non-trivial = limit or offset "
            "present and outside [1, len-1], or continue used, or reversed with a limit."
        ),
        "exhaustive": True,
        "assumptions": [
            "offset:continue following a loop with a negative offset is not asserted (documented 'items to skip' and the reference's index arithmetic disagree)",
            "tablerow with cols <= 0 is expected to put every visited item in its own column of one row (col = position + 1, col_last never true)",
        ],
    }
