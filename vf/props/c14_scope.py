"""C14 - variables resolve to their innermost binding (reference interpreter)."""

from __future__ import annotations

from hypothesis import strategies as st

from .. import core
from .. import envs
from .. import outcome as oc
from ..core import Verdict
from ..ref import scope as S

PID = "C14"
SHARDS = {"quick": 8, "thorough": 16}

NAMES = ["a", "b", "c", "d"]
VALUES = [
    "s1", "s2", "a", "b", "c", 7, 0, True, False, None, [1, 2, 3], ["x", "y"], [], {"k": "v", "n": {"k": [10, 20]}}, {"size": 99, "first": "F"},
    {"a": 1, "b": [5, 6]}, "", "word", [[1, 2], [3]], {"list": [{"k": 1}, {"k": 2}], "idx": 1, "key": "k"},
]


def _segments(r, depth: int) -> list:
    segs = []
    for _ in range(r.choice([0, 0, 1, 1, 2, 3])):
        c = r.random()
        if c < 0.35:
            segs.append(["k", r.choice(["k", "n", "list", "a", "b", "idx", "key", "size", "first", "last"])])
        elif c < 0.5:
            segs.append(["q", r.choice(["k", "n", "list", "a", "size"])])
        elif c < 0.75:
            segs.append(["i", r.choice([0, 1, -1, -2, 2, 5, -3, -4, -5, -7, 3])])
        elif depth > 0:
            segs.append(["v", [r.choice(NAMES + ["idx"]), *_segments(r, 0)[:1]]])
        else:
            segs.append(["k", r.choice(["size", "first", "last"])])
    return segs


def _path(r, extra_roots=()) -> list:
    if r.random() < 0.1:
        # a bracketed root: the variable whose name is held by another variable ("s1"/"word" name nothing, "a".."d" do)
        inner = [r.choice(NAMES + ["ref"]), *( [["k", "key"]] if r.random() < 0.15 else [])]
        return [["v", inner], *(_segments(r, 1) if r.random() < 0.5 else [])]
    return [r.choice(NAMES + list(extra_roots)), *_segments(r, 1)]


def _val(r) -> list:
    if r.random() < 0.5:
        v = r.choice([x for x in VALUES if isinstance(x, (str, int, bool, type(None)))])
        return ["lit", v]
    return ["path", _path(r)]


def _block(r, depth: int, partials: bool) -> list:
    out = []
    for _ in range(r.randint(1, 4)):
        c = r.random()
        if c < 0.35 or depth <= 0:
            out.append(["out", _path(r, extra_roots=["forloop"] if r.random() < 0.1 else [])])
            if out[-1][1][0] == "forloop":
                out[-1][1] = ["forloop", ["k", r.choice(["index", "length"])]]
            out.append(["text", "|"])
        elif c < 0.47:
            out.append(["assign", r.choice(NAMES), _val(r)])
        elif c < 0.54:
            # (a third of the captures render nothing: an empty body, or the output of a name nothing binds - the name is bound
            # to the empty string all the same)
            body = _block(r, depth - 1, partials) if r.random() < 0.67 else r.choice([[], [["out", ["nosuch"]]], [["text", ""]]])
            out.append(["capture", r.choice(NAMES), body])
        elif c < 0.68:
            coll = ["path", _path(r)] if r.random() < 0.6 else ["lit", ["range", [1, r.randint(1, 3)]]]
            out.append(["for", r.choice(NAMES), coll, _block(r, depth - 1, partials)])
        elif c < 0.72:
            out.append(["tablerow", r.choice(NAMES), ["path", _path(r)], _block(r, depth - 1, partials)])
        elif c < 0.82:
            ks = r.sample(NAMES, r.randint(1, 2))
            out.append(["with", [[k, _val(r)] for k in ks], _block(r, depth - 1, partials)])
        elif c < 0.92 and partials:
            name = r.choice(["p1", "p2", "c"])
            bind = None
            if r.random() < 0.5:
                bp = _path(r)
                while isinstance(bp[0], list):
                    bp = _path(r)  # (the bound variable of include has to start with a name: "[x]" is a syntax error there)
                bind = [r.choice(["with", "for"]), bp, r.choice([None, r.choice(NAMES)])]
            kwargs = [[k, _val(r)] for k in r.sample(NAMES, r.choice([0, 0, 1, 2, 2]))]
            if len(kwargs) == 2 and r.random() < 0.5:
                # arguments that name one another: each is evaluated in the caller's scope, not next to its siblings
                kwargs[1][1] = ["path", [kwargs[0][0]]]
                if r.random() < 0.5:
                    kwargs[0][1] = ["path", [kwargs[1][0]]]
            out.append(["include", name, bind, kwargs])
        else:
            out.append([r.choice(["incr", "decr"]), r.choice(NAMES)])
    return out


def _layer(r) -> dict:
    return {k: r.choice(VALUES) for k in r.sample(NAMES + ["idx"], r.randint(0, 4))}


@st.composite
def cases(draw):
    r = core.rng(draw)
    partials = {n: _block(r, 1, False) for n in ("p1", "p2", "c")}
    prog = _block(r, 3, True)
    layers = {"args": _layer(r), "matter": _layer(r), "tglobals": _layer(r), "eglobals": _layer(r)}
    if r.random() < 0.6:
        # "ref" holds the name of another variable (read through a bracketed root, see _path)
        layers[r.choice(["args", "tglobals", "eglobals", "matter"])]["ref"] = r.choice(NAMES + ["idx", "nosuch"])
    if r.random() < 0.15:
        layers[r.choice(["args", "tglobals", "eglobals"])]["now"] = "USER-NOW"
        prog.append(["out", ["now"]])
    flags = {"string_first_and_last": r.random() < 0.2, "string_sequences": r.random() < 0.2}
    return {"prog": prog, "partials": partials, "layers": layers, "flags": flags}


def _lit_fix(prog):
    """["lit", ["range", [a, b]]] literals denote ranges."""
    return prog


def evaluate(case) -> Verdict:
    v = Verdict()
    layers, flags = case["layers"], case["flags"]
    src = S.to_source(case["prog"])
    psrc = {n: S.to_source(b) for n, b in case["partials"].items()}
    cfg = {"mode": "strict", "extra": True, "twice": False, "flags": flags, "globals": layers["eglobals"]}
    env = envs.make_env(cfg, psrc)

    o = oc.render(case, lambda: env.from_string(src, globals=layers["tglobals"], matter=layers["matter"]), **layers["args"])
    interp = S.Interp(
        args=_ranges(layers["args"]), matter=_ranges(layers["matter"]), tglobals=_ranges(layers["tglobals"]),
        eglobals=_ranges(layers["eglobals"]), partials={n: _ranges(b) for n, b in case["partials"].items()},
        string_first_and_last=flags.get("string_first_and_last", False), string_sequences=flags.get("string_sequences", False),
    )
    want = interp.run(_ranges(case["prog"]))
    if o[0] != "ok":
        v.fail(f"raises:{o[1]}", f"{src!r:.400} -> {oc.short(o)}")
    elif interp.unspecified:
        v.labels.append("unspecified(bool index)")
    elif o[1] != want:
        v.fail("resolution", f"src={src!r:.500}\n   partials={psrc!r:.300}\n   layers={layers!r:.400}\n   expected {want!r:.200}\n   observed {o[1]!r:.200}")
    # non-trivial: some name bound in >= 2 layers/constructs
    bound = {}
    for lname, layer in layers.items():
        for k in layer:
            bound.setdefault(k, set()).add(lname)
    text = core.canon(case["prog"])
    for n in NAMES:
        if f'["assign", "{n}"' in text:
            bound.setdefault(n, set()).add("assign")
        if f'["for", "{n}"' in text or f'["with", [["{n}"' in text:
            bound.setdefault(n, set()).add("block")
    v.nontrivial = any(len(s) >= 2 for s in bound.values())
    v.labels.append("layers:" + str(max([len(s) for s in bound.values()] or [0])))
    return v


def _ranges(x):
    """Decode ["lit", ["range", [a, b]]] into Python ranges for the interpreter."""
    if isinstance(x, list):
        if len(x) == 2 and x[0] == "lit" and isinstance(x[1], list) and len(x[1]) == 2 and x[1][0] == "range":
            return ["lit", range(x[1][1][0], x[1][1][1] + 1)]
        return [_ranges(e) for e in x]
    if isinstance(x, dict):
        return {k: _ranges(e) for k, e in x.items()}
    return x


def campaign(ctx: core.Ctx, tier: str, shard: int, nshards: int) -> None:
    total = 4000 if tier == "quick" else 80000
    core.drive(cases(), ctx.run, n=max(1, total // nshards), seed=core.sub_seed(ctx.seed, shard))


def finish_kwargs(ctx: core.Ctx, tier: str) -> dict:
    return {
        "rule": (
            "Random programs over a binding language (assign, capture, for, tablerow, with, include with/for/as and "
            "keyword arguments, increment/decrement, output of paths) in which the same four names are bound by "
            "several constructs in arbitrary nesting, with render arguments, front matter, template globals and "
            "environment globals populated independently (and a user 'now' shadowing the built-in), and paths of "
            "length 1-4 (dotted, quoted, index from -7 to 5 - beyond both ends of every array -, nested variable, size/first/last). The whole output "
            "is compared with a ~200-line reference interpreter. Non-trivial = some name is bound in >= 2 "
            "layers/constructs."
        ),
        "assumptions": ["values are JSON-like; stringification of printed values follows the engine's to_liquid_string rules"],
    }
