"""C15 - rendered partials and macros are isolated from their caller (metamorphic)."""

from __future__ import annotations

import re

from hypothesis import strategies as st

from .. import core
from .. import envs
from .. import outcome as oc
from ..core import Verdict

PID = "C15"
SHARDS = {"quick": 8, "thorough": 16}

NAMES = ["a", "b", "c", "d"]
OPEN, CLOSE = "⟦", "⟧"  # sentinels around the partial's output
SEG = re.compile(OPEN + "(.*?)" + CLOSE, re.S)


def body_src(stmts, *, with_assigns: bool = True) -> str:
    out = []
    for st_ in stmts:
        op = st_[0]
        if op == "read":
            out.append("{{ " + st_[1] + " }},")
        elif op == "assign":
            if with_assigns:
                out.append("{% assign " + st_[1] + " = '" + st_[2] + "' %}")
        elif op == "capture":
            if with_assigns:
                out.append("{% capture " + st_[1] + " %}" + st_[2] + "{% endcapture %}")
        elif op == "incr":
            out.append("{% increment " + st_[1] + " %};" if with_assigns else "0;")
        elif op == "loop":
            out.append("{% for " + st_[1] + " in (1..2) %}{{ " + st_[1] + " }}{% endfor %},")
        elif op == "if":
            out.append("{% if " + st_[1] + " %}T{% else %}F{% endif %},")
        elif op == "loopvars":
            # the loop helpers of a caller's loop are caller locals too
            out.append("{{ forloop.index }}/{% for z in (1..1) %}{{ forloop.parentloop.index }}{{ forloop.parentloop.length }}{% endfor %}/{{ tablerowloop.index }},")
    return "".join(out)


def prelude_src(pre) -> tuple[str, str]:
    """(text before the call, text after the call) for a prelude of assigns and wrappers."""
    before, after = [], []
    for st_ in pre:
        op = st_[0]
        if op == "assign":
            before.append("{% assign " + st_[1] + " = '" + st_[2] + "' %}")
        elif op == "capture":
            before.append("{% capture " + st_[1] + " %}" + st_[2] + "{% endcapture %}")
        elif op == "for":
            before.append("{% for " + st_[1] + " in one %}")
            after.insert(0, "{% endfor %}")
        elif op == "with":
            before.append("{% with " + st_[1] + ": '" + st_[2] + "' %}")
            after.insert(0, "{% endwith %}")
        elif op == "incr":
            before.append("{% capture junk %}{% increment " + st_[1] + " %}{% endcapture %}")
    return "".join(before), "".join(after)


def call_src(case, macro_body: str) -> tuple[str, str]:
    """(definition text placed at the very top, call text)."""
    mode = case["mode"]
    lit_args = ", ".join(f"{k}: '{v}'" for k, v in case["args"])
    if mode == "render":
        return "", "{% render 'p'" + (", " + lit_args if lit_args else "") + " %}"
    if mode == "render_with":
        return "", "{% render 'p' with gw as " + case["alias"] + (", " + lit_args if lit_args else "") + " %}"
    if mode == "render_for":
        return "", "{% render 'p' for gl as " + case["alias"] + (", " + lit_args if lit_args else "") + " %}"
    if mode == "macro":
        # parameters the call passes, then parameters it omits (with or without a default)
        plist = [k for k, _ in case["args"]] + [k if d is None else f"{k}: '{d}'" for k, d in case.get("omitted", [])]
        params = ", ".join(plist)
        if case.get("kwcall"):
            vals = ", ".join(f"{k}: '{v}'" for k, v in case["args"])
        else:
            vals = ", ".join(f"'{v}'" for _, v in case["args"])
        return "{% macro m " + params + " %}" + macro_body + "{% endmacro %}", "{% call m " + vals + " %}"
    raise core.HarnessError(mode)


def build(case, prelude, *, with_assigns: bool = True) -> tuple[str, dict]:
    body = OPEN + body_src(case["body"], with_assigns=with_assigns) + CLOSE
    definition, call = call_src(case, body)
    post = "POST:" + "".join("{{ " + n + " }}," for n in NAMES)
    if case.get("in_block"):
        # the call sits in a block of a template that extends another one; what the prelude assigns or captures is
        # bound in the enclosing template (before the extends tag), loops and with blocks go round the call
        top, _ = prelude_src([s for s in prelude if s[0] in ("assign", "capture", "incr")])
        before, after = prelude_src([s for s in prelude if s[0] in ("for", "with")])
        src = top + "{% extends 'xbase' %}{% block main %}" + definition + before + call + after + post + "{% endblock %}"
        return src, {"p": body, "xbase": "[{% block main %}{% endblock %}]"}
    before, after = prelude_src(prelude)
    src = definition + before + call + after + post
    return src, {"p": body}


VIAS = {
    "render": "{% render 'p' %}",
    "render_kw": "{% render 'p', a: 1 %}",
    "render_with": "{% render 'p' with gw as a %}",
    "render_with_noalias": "{% render 'p' with gw %}",
    "render_for": "{% render 'p' for gl as a %}",
    "render_for_noalias": "{% render 'p' for gl %}",
    "render_for_kw": "{% render 'p' for gl as a, b: 2 %}",
    "render_in_loop": "{% for i in gl %}{% render 'p' %}{% endfor %}",
    "nested": "{% render 'outer' %}",
    "nested_for": "{% render 'outer_for' %}",
    "extending_partial": "{% render 'xq' %}",
    "extending_partial_for": "{% render 'xq' for gl as a %}",
    "in_block": "{% extends 'xqbase' %}{% block b %}{% render 'p' %}{% endblock %}",
    "macro": "{% macro m %}$BODY{% endmacro %}{% call m %}",
    "macro_args": "{% macro m a, b: 1 %}$BODY{% endmacro %}{% call m 2 %}",
}


def render(case, src: str, partials: dict):
    env = envs.make_env({"mode": "strict", "extra": True, "twice": False}, partials)
    data = dict(case["globals"])
    data.update(one=["x"], gw="GW", gl=["L1", "L2"])
    return oc.render(case, lambda: env.from_string(src), **data)


def evaluate(case) -> Verdict:
    v = Verdict()
    if case["kind"] == "include-disabled":
        partial = case["partial"]
        env = envs.make_env({"mode": "strict", "extra": True, "twice": False}, {"p": partial, "q": "Q", "outer": "{% render 'p' %}", "outer_for": "{% render 'p' for gl as it %}",
                                                                                 "xq": "{% extends 'xqbase' %}{% block b %}" + partial + "{% endblock %}", "xqbase": "Q[{% block b %}{% endblock %}]"})
        src = VIAS[case["via"]].replace("$BODY", partial)
        o = oc.render(case, lambda: env.from_string(src), gw="GW", gl=["L1", "L2"], one=["x"])
        if not (o[0] == "liquid" and o[1] == "DisabledTagError"):
            v.fail(f"include-allowed:{case['via']}", f"{src!r} with p={partial!r}: {oc.short(o)!r:.150}, expected DisabledTagError")
        v.nontrivial = True
        v.key = ["include-disabled", case["via"], partial]
        v.labels.append("include-disabled")
        return v
    if case["kind"] == "visible":
        return eval_visible(case)
    mode = case["mode"]
    # R1: the partial's output does not depend on the caller's locals
    src1, parts = build(case, case["prelude1"])
    src2, _ = build(case, case["prelude2"])
    o1, o2 = render(case, src1, parts), render(case, src2, parts)
    if o1[0] != "ok" or o2[0] != "ok":
        v.fail(f"raises:{mode}", f"{src1!r:.300} -> {oc.short(o1)!r:.120}; {src2!r:.300} -> {oc.short(o2)!r:.120}")
        return v
    s1, s2 = SEG.findall(o1[1]), SEG.findall(o2[1])
    if s1 != s2:
        v.fail(
            f"caller-locals-visible:{mode}",
            f"partial output depends on the caller's local variables\n   caller 1: {src1!r:.400}\n   caller 2: {src2!r:.400}\n"
            f"   partial: {parts['p']!r:.200}\n   globals={case['globals']!r}\n   partial output 1: {s1!r:.150}\n   partial output 2: {s2!r:.150}",
        )
    # R2: the caller does not see the partial's assignments
    src3, parts3 = build(case, case["prelude1"], with_assigns=False)
    o3 = render(case, src3, parts3)
    if o3[0] == "ok":
        p1, p3 = o1[1].rsplit("POST:", 1)[1], o3[1].rsplit("POST:", 1)[1]
        if p1 != p3:
            v.fail(
                f"partial-assignments-leak:{mode}",
                f"the caller sees variables assigned by the partial\n   caller: {src1!r:.400}\n   partial: {parts['p']!r:.200}\n"
                f"   after the call with assignments: {p1!r:.100}, without: {p3!r:.100}",
            )
    reads = {s[1] for s in case["body"] if s[0] in ("read", "if")}
    binds = {s[1] for s in case["prelude1"] + case["prelude2"]}
    if any(s[0] == "loopvars" for s in case["body"]) and any(s[0] == "for" for s in case["prelude1"] + case["prelude2"]):
        reads.add("forloop")
        binds.add("forloop")
    assigns = {s[1] for s in case["body"] if s[0] in ("assign", "capture", "incr")}
    v.nontrivial = bool(reads & binds) or bool(assigns)
    v.labels.append("mode:" + mode)
    return v


def eval_visible(case) -> Verdict:
    """R4: a rendered partial does see its keyword arguments and its bound variable (and a macro its arguments)."""
    v = Verdict()
    mode, alias, args = case["mode"], case.get("alias"), case["args"]
    reads = [alias or "p"] + [k for k, _ in args]
    body = "[" + "|".join("{{ " + n + " }}" for n in reads) + "]"
    kw = "".join(f", {k}: '{val}'" for k, val in args)
    pre = "{% assign gw = 'GW' %}{% assign gl = 'L1,L2' | split: ',' %}" if case["source"] == "assign" else ""
    as_ = f" as {alias}" if alias else ""
    if mode == "render_with":
        src, items = pre + "{% render 'p' with gw" + as_ + kw + " %}", ["GW"]
    elif mode == "render_for":
        src, items = pre + "{% render 'p' for gl" + as_ + kw + " %}", ["L1", "L2"]
    elif mode == "render_kw":
        src, items, reads = pre + "{% render 'p'" + kw + " %}", [None], [k for k, _ in args]
        body = "[" + "|".join("{{ " + n + " }}" for n in reads) + "]"
    elif mode == "macro":
        reads = [k for k, _ in args]
        body = "[" + "|".join("{{ " + n + " }}" for n in reads) + "]"
        params = ", ".join(reads)
        call = ", ".join(f"{k}: '{val}'" for k, val in args) if case.get("kwcall") else ", ".join(f"'{val}'" for _, val in args)
        src, items = "{% macro m " + params + " %}" + body + "{% endmacro %}" + pre + "{% call m " + call + " %}", [None]
    else:
        raise core.HarnessError(mode)
    want = "".join("[" + "|".join(([it] if it is not None else []) + [val for _, val in args]) + "]" for it in items)
    env = envs.make_env({"mode": "strict", "extra": True, "twice": False}, {"p": body})
    data = {} if case["source"] == "assign" else {"gw": "GW", "gl": ["L1", "L2"]}
    data.update(case.get("globals") or {})
    o = oc.render(case, lambda: env.from_string(src), **data)
    if o[0] != "ok":
        v.fail(f"visible:raises:{mode}", f"{src!r} p={body!r} data={data!r} -> {oc.short(o)!r:.150}")
    elif o[1] != want:
        what = "bound-variable" if (o[1].count("|") == want.count("|") and items[0] is not None and items[0] not in o[1]) else "arguments"
        v.fail(f"visible:{what}-missing:{mode}", f"{src!r} with p={body!r} and render data {data!r}: expected {want!r}, observed {o[1]!r}")
    v.nontrivial = True
    v.labels.append("visible:" + mode)
    return v


def visible_cases():
    for mode in ("render_with", "render_for", "render_kw", "macro"):
        for alias in ("a", None):
            if mode in ("render_kw", "macro") and alias:
                continue
            for args in ([], [["b", "B1"]], [["b", "B1"], ["c", "C1"]]):
                if mode in ("render_kw", "macro") and not args:
                    continue
                for source in ("assign", "data"):
                    for glob in ({}, {"z": 1}):
                        for kwcall in ((False, True) if mode == "macro" else (False,)):
                            yield {"kind": "visible", "mode": mode, "alias": alias, "args": args, "source": source, "globals": glob, "kwcall": kwcall}


def _prelude(r) -> list:
    out = []
    for _ in range(r.randint(0, 4)):
        c = r.random()
        name = r.choice(NAMES + ["p", "forloop"][:1])
        if c < 0.4:
            out.append(["assign", name, r.choice(["L1", "L2", "zz"])])
        elif c < 0.55:
            out.append(["capture", name, r.choice(["cap", ""])])
        elif c < 0.75:
            out.append(["for", name])
        elif c < 0.9:
            out.append(["with", name, r.choice(["W1", "W2"])])
        else:
            out.append(["incr", name])
    return out


def _body(r) -> list:
    out = []
    for _ in range(r.randint(1, 6)):
        c = r.random()
        name = r.choice(NAMES)
        if c < 0.45:
            out.append(["read", name])
        elif c < 0.6:
            out.append(["assign", name, r.choice(["P1", "P2"])])
        elif c < 0.68:
            out.append(["capture", name, "pc"])
        elif c < 0.76:
            out.append(["incr", name])
        elif c < 0.84:
            out.append(["loop", name])
        elif c < 0.92:
            out.append(["loopvars", name])
        else:
            out.append(["if", name])
    out.append(["read", r.choice(NAMES)])
    return out


@st.composite
def cases(draw):
    r = core.rng(draw)
    mode = r.choice(["render", "render", "render_with", "render_for", "macro", "macro"])
    args = [[k, r.choice(["A1", "A2"])] for k in r.sample(NAMES, r.choice([0, 1, 2]))]
    alias = r.choice(NAMES)
    glob = {k: r.choice(["G1", "G2", 5, ["g"]]) for k in r.sample(NAMES, r.randint(0, 3))}
    case = {
        "kind": "iso", "mode": mode, "args": args, "alias": alias, "globals": glob,
        "prelude1": _prelude(r), "prelude2": _prelude(r), "body": _body(r),
    }
    case["in_block"] = r.random() < 0.25
    if mode == "macro":
        rest = [n for n in NAMES if n not in {k for k, _ in args}]
        case["omitted"] = [[k, r.choice([None, None, "D1"])] for k in r.sample(rest, r.choice([0, 1, 2]))]
        case["kwcall"] = r.random() < 0.3
    return case


DISABLED = [
    "{% include 'q' %}", "x{% if true %}{% include 'q' %}{% endif %}", "{% for i in (1..1) %}{% include 'q' %}{% endfor %}",
    "{% liquid\ninclude 'q'\n%}", "{% capture c %}{% include 'q' %}{% endcapture %}", "{% render 'p2' %}",
]


def campaign(ctx: core.Ctx, tier: str, shard: int, nshards: int) -> None:
    idx = 0
    for partial in DISABLED[:5]:
        for via in VIAS:
            idx += 1
            if idx % nshards == shard:
                ctx.run({"kind": "include-disabled", "partial": partial, "via": via})
    for case in visible_cases():
        idx += 1
        if idx % nshards == shard:
            ctx.run(case)
    total = 3000 if tier == "quick" else 60000
    core.drive(cases(), ctx.run, n=max(1, total // nshards), seed=core.sub_seed(ctx.seed, shard))


def finish_kwargs(ctx: core.Ctx, tier: str) -> dict:
    return {
        "rule": (
            "Callers = a prelude binding any of four names by assign, capture, an enclosing for loop, an enclosing "
            "with block or a counter, then {% render 'p' %} (plain, with ... as, for ... as, literal keyword "
            "arguments; a quarter of the cases put the call in a block of a template that extends another one) or {% macro %}/{% call %} (positional or keyword arguments, some parameters omitted with or "
            "without a default), then a postlude printing the four names; the partial/macro body "
            "reads, assigns, captures, increments and loops over the same names, and reads forloop / forloop.parentloop / "
            "tablerowloop, between sentinels. R1: the text "
            "between the sentinels is identical for two different preludes (arguments and globals fixed). R2: the "
            "postlude output is identical when the body's assignments are removed. R3: include (directly, in a block, in a liquid tag, in a capture) "
            f"inside a partial reached through any of {len(VIAS)} call forms (plain, keyword arguments, with/for with and "
            "without alias, inside a caller's loop, through a second render, macro bodies) raises DisabledTagError. R4 (all combinations): a partial rendered with keyword arguments and "
            "'with x [as y]' / 'for xs [as y]' prints exactly those values, whether the bound expression is a caller "
            "local or render data and whether or not any other render data exists; a macro prints its positional or "
            "keyword arguments. Non-trivial = a prelude binds a name the body reads, or the body assigns a name."
        ),
        "assumptions": ["state a 'render ... for' partial carries from one item to the next is not asserted"],
    }
