"""C16 - strict undefined types only refine the default behaviour."""

from __future__ import annotations

from hypothesis import strategies as st

from .. import core
from .. import envs
from .. import outcome as oc
from ..core import Verdict
from ..gen import data as gd
from ..gen import grammar as gg

PID = "C16"
SHARDS = {"quick": 8, "thorough": 16}

STRICT_TYPES = ["strict", "falsy", "strictdefault"]
PARTIALS = {"p": "[{{ p }}{{ x }}]", "q": "{% if q %}Q{% endif %}{{ y.a }}"}

# uses of a missing variable that StrictUndefined must reject: (class, template)
# kinds of missing path; the first is the reference kind (a plain missing root)
MISSING = ["m", "d.m", "d['m']", "lst[9]", "d.a.b", "d[m]", "d[d.m]", "lst[m]", "d[m].x", "d.a[m]", "lst[-9]", "d[nokey]",
           "nn.x", "d.n.x", "d['n'][0]", "d.n.x.y", "lst[2].a", "x.y", "d.x.y"]  # (through a key that holds nil, or a number)
TARGETED = [
    ("output", "{{ «m» }}"), ("output", "{% echo «m» %}"), ("output", "{% assign v = «m» %}{{ v }}"),
    ("iterate", "{% for i in «m» %}x{% endfor %}"), ("iterate", "{% tablerow i in «m» %}x{% endtablerow %}"),
    ("compare", "{% if «m» == 1 %}t{% endif %}"), ("compare", "{% if «m» != 'a' %}t{% endif %}"),
    ("compare", "{% if 1 < «m» %}t{% endif %}"), ("compare", "{% if «m» contains 'a' %}t{% endif %}"),
    ("compare", "{% unless «m» == nil %}t{% endunless %}"), ("compare", "{% case «m» %}{% when 1 %}a{% endcase %}"),
    ("compare", "{% case 1 %}{% when «m» %}a{% endcase %}"),
    *[("filter:" + f, "{{ «m» | " + f + " }}") for f in [
        "upcase", "downcase", "capitalize", "strip", "size", "first", "last", "join: ','", "escape", "append: 'x'",
        "prepend: 'x'", "replace: 'a', 'b'", "split: ','", "truncate: 3", "sort", "reverse", "uniq", "map: 'a'",
        "where: 'a'", "concat: lst", "default: 'D'", "plus: 1", "minus: 1", "times: 2", "divided_by: 2", "abs",
        "ceil", "floor", "round", "at_least: 1", "modulo: 2", "date: '%Y'", "slice: 0", "strip_html", "url_encode",
        "base64_encode", "sum", "compact", "json",
    ]],
    # positions where a strict type may or may not raise, but where a render that succeeds must agree with the default type
    ("free:nil", "{% if «m» == nil %}t{% else %}f{% endif %}"), ("free:nil", "{% if nil == «m» %}t{% else %}f{% endif %}"),
    ("free:nil", "{% if «m» != nil %}t{% else %}f{% endif %}"), ("free:nil", "{% if «m» == null %}t{% else %}f{% endif %}"),
    ("free:nil", "{% if «m» == nn %}t{% else %}f{% endif %}"), ("free:nil", "{% case «m» %}{% when nil %}t{% else %}f{% endcase %}"),
    ("free:nil", "{% case nil %}{% when «m» %}t{% else %}f{% endcase %}"), ("free:nil", "{% if «m» <> nil %}t{% else %}f{% endif %}"),
    ("free:special", "{% if «m» == empty %}t{% else %}f{% endif %}"), ("free:special", "{% if «m» == blank %}t{% else %}f{% endif %}"),
    ("free:special", "{% if «m» == false %}t{% else %}f{% endif %}"), ("free:special", "{% if false == «m» %}t{% else %}f{% endif %}"),
    ("free:special", "{% if «m» == «m» %}t{% else %}f{% endif %}"), ("free:special", "{% if «m» == nosuch %}t{% else %}f{% endif %}"),
    ("free:truthy", "{% if «m» %}t{% else %}f{% endif %}"), ("free:truthy", "{% unless «m» %}t{% else %}f{% endunless %}"),
    ("free:truthy", "{% if «m» and x %}t{% else %}f{% endif %}"), ("free:truthy", "{% if «m» or x %}t{% else %}f{% endif %}"),
    ("free:truthy", "{% if x and «m» %}t{% else %}f{% endif %}"), ("free:truthy", "{% if not «m» %}t{% else %}f{% endif %}"),
    ("free:truthy", "{{ 'a' if «m» else 'b' }}"), ("free:truthy", "{{ «m» | default: 'D' }}"), ("free:truthy", "{{ «m» | default: 'D', allow_false: true }}"),
    ("free:truthy", "{% if lst contains «m» %}t{% else %}f{% endif %}"), ("free:truthy", "{% assign v = «m» %}{% if v %}t{% else %}f{% endif %}"),
    ("free:truthy", "{% include 'q', q: «m» %}"), ("free:truthy", "{% render 'q', q: «m» %}"), ("free:truthy", "{% with q: «m» %}{% if q == nil %}t{% endif %}{% endwith %}"),
    # a missing value in every argument position of the filters that take one (the same rule: whatever succeeds agrees)
    *[("free:arg", "{{ " + lhs + " | " + f + " }}") for lhs, f in [
        ("arr", "where: 'a', «m» | map: 't' | join: ','"), ("arr", "reject: 'a', «m» | map: 't' | join: ','"), ("arr", "find: 'a', «m» | json"),
        ("arr", "find_index: 'a', «m»"), ("arr", "has: 'a', «m»"), ("arr", "where: «m» | map: 't' | join: ','"), ("arr", "map: «m» | join: ','"),
        ("arr", "sort: «m» | map: 't' | join: ','"), ("arr", "sum: «m»"), ("arr", "uniq: «m» | map: 't' | join: ','"), ("arr", "compact: «m» | size"),
        ("lst", "join: «m»"), ("lst", "concat: «m» | join: ','"), ("lst", "slice: 0, «m» | join: ','"), ("lst", "slice: «m» | join: ','"), ("lst", "index: «m»"),
        ("'abc'", "default: «m»"), ("nil", "default: «m»"), ("'a,b'", "split: «m» | join: '|'"), ("'abcabc'", "replace: 'a', «m»"), ("'abcabc'", "replace: «m», 'x'"),
        ("'abcabc'", "remove: «m»"), ("'abcdef'", "truncate: «m»"), ("'abcdef'", "truncate: 4, «m»"), ("'a b c'", "truncatewords: «m»"), ("'abcdef'", "slice: 1, «m»"),
        ("2.567", "round: «m»"), ("5", "at_least: «m»"), ("5", "at_most: «m»"), ("5", "plus: «m»"), ("5", "times: «m»"), ("5", "divided_by: «m»"), ("5", "modulo: «m»"),
        ("'2001-02-03'", "date: «m»"), ("'x'", "append: «m» | size"), ("'x'", "prepend: «m» | size"), ("'abc'", "default: 'D', allow_false: «m»"),
    ]],
    ("filter-arg", "{{ 'a' | append: «m» }}"), ("filter-arg", "{{ lst | join: «m» }}"), ("filter-arg", "{{ 1 | plus: «m» }}"),
]
BASE = {"d": {"a": {}, "x": 1, "n": None}, "lst": [1, 2, None], "x": 1, "nn": None,
        "arr": [{"a": True, "t": "p"}, {"a": False, "t": "q"}, {"a": None, "t": "r"}, {"t": "s"}, {"a": "v", "t": "u"}]}
FLAGS = {"logical_not_operator": True, "logical_parentheses": True, "ternary_expressions": True}


def _cfg(case, undefined: str) -> dict:
    cfg = dict(case.get("cfg") or {})
    cfg.update(mode="strict", undefined=undefined)
    return cfg


def evaluate(case) -> Verdict:
    v = Verdict()
    if case["kind"] == "targeted":
        cls, shape = ("free:arg", case["shape"]) if "shape" in case else TARGETED[case["i"]]  # (a shape spelled out: known-findings repros)
        src = shape.replace("«m»", case["m"])
        cfg = {"extra": True, "twice": False, "flags": FLAGS}
        env = envs.make_env(_cfg({"cfg": cfg}, "strict"), PARTIALS)
        o = oc.render(case, lambda: env.from_string(src), **BASE)
        if not cls.startswith("free:") and not (o[0] == "liquid" and o[1] == "UndefinedError"):
            v.fail(f"strict-accepts:{cls}", f"{src!r} with StrictUndefined -> {oc.short(o)!r:.200}, expected UndefinedError")
        envd = envs.make_env(_cfg({"cfg": cfg}, "default"), PARTIALS)
        od = oc.render(case, lambda: envd.from_string(src), **BASE)
        # first clause of the property at this position: a strict type that lets the render succeed agrees with the default type
        for ut in STRICT_TYPES:
            envu = envs.make_env(_cfg({"cfg": cfg}, ut), PARTIALS)
            ou = oc.render(case, lambda: envu.from_string(src), **BASE)  # noqa: B023
            if ou[0] == "ok" and (od[0] != "ok" or ou[1] != od[1]):
                v.fail(f"output-differs:{ut}:{cls.split(':')[0]}", f"{src!r}: {ut} -> {oc.short(ou)!r:.120} but default -> {oc.short(od)!r:.120}")
        if od[0] == "liquid" and od[1] == "UndefinedError":
            v.fail(f"default-raises:{cls}", f"{src!r} with the default Undefined raised UndefinedError")
        # however the path came to be missing, the default type yields the same undefined value: the outcome
        # must be the one a plain missing root gives in the same position
        ref_src = shape.replace("«m»", MISSING[0])
        oref = oc.render(case, lambda: envd.from_string(ref_src), **BASE)
        if oc.short(od)[:2] != oc.short(oref)[:2]:
            v.fail(
                f"default-depends-on-how-missing:{cls.split(':')[0]}",
                f"default Undefined: {src!r} -> {oc.short(od)!r:.150} but {ref_src!r} -> {oc.short(oref)!r:.150}",
            )
        v.nontrivial = True
        v.key = ["targeted", case["i"], case["m"]]
        v.labels.append("targeted:" + cls.split(":")[0])
        v.info = src
        return v
    src = gg.to_source(case["main"])
    data = gd.decode(case["data"])
    envd = envs.make_env(_cfg(case, "default"), PARTIALS)
    od = oc.render(case, lambda: envd.from_string(src), **data)
    if od[0] == "liquid" and od[1] == "UndefinedError":
        v.fail("default-raises:template", f"default Undefined raised UndefinedError: {src!r:.300}")
    saw_undefined = False
    for ut in STRICT_TYPES:
        env = envs.make_env(_cfg(case, ut), PARTIALS)
        o = oc.render(case, lambda: env.from_string(src), **data)
        if o[0] == "liquid" and o[1] == "UndefinedError":
            saw_undefined = True
        if o[0] == "ok":
            if od[0] != "ok":
                v.fail(f"strict-ok-default-fails:{ut}", f"{ut} render succeeded but the default type gave {oc.short(od)!r:.120}: {src!r:.300}")
            elif o[1] != od[1]:
                v.fail(f"output-differs:{ut}", f"{ut}={o[1]!r:.150} default={od[1]!r:.150}: {src!r:.300}")
    v.nontrivial = saw_undefined
    v.labels.append("template:" + ("undefined-hit" if saw_undefined else "all-defined"))
    return v


def _delete_paths(r, data):
    """Remove random keys and sub-paths."""
    def prune(x, depth):
        if isinstance(x, dict):
            for k in list(x):
                if k == "$":
                    return x
                if r.random() < 0.3:
                    del x[k]
                else:
                    prune(x[k], depth + 1)
        elif isinstance(x, list):
            for e in x:
                prune(e, depth + 1)
        return x

    return prune(data, 0)


@st.composite
def cases(draw):
    r = core.rng(draw)
    cfg = envs.gen_cfg(r, modes=("strict",))
    cfg.pop("undefined", None)
    nodes = list(gg.STD_NODES) + (gg.EXTRA_NODES if cfg.get("extra") else [])
    flags = cfg.get("flags") or {}
    prof = gg.Profile(
        nodes=nodes, partials=["p", "q"], ternary=bool(flags.get("ternary_expressions")),
        logical_not=bool(flags.get("logical_not_operator")), parens=bool(flags.get("logical_parentheses")),
        dynamic_partial_names=False, filters=[f for f in sorted(gg.FILTER_ARGS) if f != "date"],
    )
    main = gg.Gen(r, prof).template()
    data = _delete_paths(r, gd.DataGen(r).data())
    return {"kind": "tmpl", "cfg": cfg, "main": main, "data": data}


def campaign(ctx: core.Ctx, tier: str, shard: int, nshards: int) -> None:
    idx = 0
    for i in range(len(TARGETED)):
        for m in MISSING:
            idx += 1
            if idx % nshards == shard:
                ctx.run({"kind": "targeted", "i": i, "m": m})
    total = 3000 if tier == "quick" else 60000
    core.drive(cases(), ctx.run, n=max(1, total // nshards), seed=core.sub_seed(ctx.seed, shard))


def finish_kwargs(ctx: core.Ctx, tier: str) -> dict:
    return {
        "rule": (
            f"(a) {len(TARGETED)} targeted uses (output, iterate, compare, {sum(1 for c, _ in TARGETED if c.startswith('filter:'))} "
            f"filters, filter arguments) x {len(MISSING)} kinds of missing path: StrictUndefined must raise UndefinedError, "
            "the default type must not, and must give the same outcome as for a plain missing root in that position. (b) random templates rendered with data from which ~30% of keys and "
            "sub-paths were deleted, under Undefined, StrictUndefined, FalsyStrictUndefined and "
            "StrictDefaultUndefined: a successful strict-type render must equal the default-type render, and the "
            "default type never raises UndefinedError. Non-trivial (b) = some strict type raised UndefinedError "
            "(a deleted path was evaluated)."
        ),
        "assumptions": ["the default type may raise other Liquid errors (e.g. nil < 1 is a type error by C12)"],
    }
