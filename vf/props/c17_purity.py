"""C17 - rendering is pure and independent of history."""

from __future__ import annotations

import copy

from hypothesis import strategies as st

from .. import core
from .. import envs
from .. import isolate
from .. import outcome as oc
from ..core import Verdict
from ..gen import data as gd
from ..gen import grammar as gg

PID = "C17"
SHARDS = {"quick": 8, "thorough": 16}

PARTIALS = {"p": "[{{ p }}{{ x | sort | join: ',' }}]", "q": "{% assign items = items | reverse %}{{ items | first }}"}
T = gd.tagged

# (b) templates whose evaluation touches memoised or stateful code
HIST_TEMPLATES = [
    "{{ v | date: '%Y-%m-%d %H:%M %z' }}",
    "{{ v | date: f }}",
    "{{ v | date: '%H' }}|{{ w | date: '%H' }}",
    "{{ v | date: '%s' }}",
    "{% cycle 'a', 'b', 'c' %}{% cycle 'a', 'b', 'c' %}{% increment n %}{% increment n %}",
    "{% ifchanged %}{{ v }}{% endifchanged %}{% ifchanged %}{{ v }}{% endifchanged %}",
    "{% for i in lst limit: 1 %}{{ i }}{% endfor %}{% for i in lst offset: continue %}{{ i }}{% endfor %}",
    "{{ v }}|{{ v | json }}|{{ v | size }}|{{ v | default: 'd' }}",
    "{% if v == w %}eq{% else %}ne{% endif %}|{{ v | plus: 1 }}|{{ v | append: 'x' }}",
    "{% include 'inc' %}|{% render 'inc', v: v %}",
    "{{ lst | sort | join: ',' }}|{{ lst | uniq | size }}|{{ lst | map: 'a' | join: ',' }}",
    "{{ v | upcase }}{{ v | escape }}{{ v | url_encode }}",
    "{% liquid\nassign z = v | default: w\necho z\n%}",
    "{% assign s = v | split: ',' %}{{ s | reverse | join: ',' }}",
    "{{ v | strip_html }}|{{ w | strip_html }}|{{ v | strip_newlines | escape_once }}",
    "{{ v }}",
    "{{ v | append: '!' | size }}|{{ lst | join: '-' | size }}",
    "{{ v | truncatewords: 2 }}|{{ v | newline_to_br }}|{{ v | slice: 0, 3 }}",
]
HIST_VALUES = [
    1, 1.0, True, 0, 0.0, False, "1", T("markup", v="1"), "<b>", T("markup", v="<b>"), "a,b", None,
    T("datetime", v="2024-03-01T12:00:00", tz=0), T("datetime", v="2024-03-01T14:00:00", tz=120),
    T("datetime", v="2024-03-01T07:00:00", tz=-300), T("datetime", v="2024-03-01T12:00:00", tz=None),
    T("date", v="2024-03-01"), T("datetime", v="2024-03-01T00:00:00", tz=None), 1709294400, "1709294400",
    "2024-03-01", "March 1, 2024", [3, 1, 2], [1, 1.0, True], [{"a": 1}, {"a": 2}], T("decimal", v="1"),
    # values that push a helper into an unusual internal state: unbalanced markup, an int beyond the int/str digit limit
    "<p>before</p><script>alert(1)", "x</script><p>Hello, <b>World</b>!</p>", "<style>p{}", "<p>Hello, <b>World</b>!</p>",
    T("pow10", n=5000), [T("pow10", n=5000), 1],
]
FORMATS = ["%Y", "%H:%M", T("markup", v="%Y"), "%d", "%s"]
HIST_CFGS = [
    {"autoescape": False, "extra": True}, {"autoescape": True, "extra": True},
    {"autoescape": False, "extra": True, "loader": "cdict"}, {"autoescape": False, "extra": True, "mode": "lax"},
]
HIST_PARTIALS = {"inc": "<{{ v }}:{{ v | date: '%H' }}>", **{f"t{i}": src for i, src in enumerate(HIST_TEMPLATES)}}


def snap(x):
    """Type- and order-aware structural snapshot."""
    if isinstance(x, dict):
        return ("dict", tuple((snap(k), snap(v)) for k, v in x.items()))
    if isinstance(x, list):
        return ("list", tuple(snap(e) for e in x))
    if isinstance(x, tuple):
        return ("tuple", tuple(snap(e) for e in x))
    return (type(x).__name__, repr(x))


def fingerprint(obj, depth: int = 0, seen=None):
    """Structural fingerprint of a parsed template (node/expression attributes)."""
    if seen is None:
        seen = set()
    if isinstance(obj, (str, int, float, bool, type(None))):
        return repr(obj)
    if id(obj) in seen or depth > 40:
        return "<cycle>"
    if isinstance(obj, (list, tuple)):
        return [fingerprint(e, depth + 1, seen) for e in obj]
    if isinstance(obj, dict):
        return {repr(k): fingerprint(v, depth + 1, seen) for k, v in obj.items()}
    mod = type(obj).__module__ or ""
    if not mod.startswith("liquid") or type(obj).__name__ in ("Environment", "VfEnvironment", "Token"):
        return type(obj).__name__
    seen.add(id(obj))
    out = {"$": type(obj).__name__}
    names = []
    for klass in type(obj).__mro__:
        names.extend(getattr(klass, "__slots__", ()) or ())
    names.extend(getattr(obj, "__dict__", {}) or {})
    for n in names:
        if n in ("env", "token", "source"):
            continue
        try:
            out[n] = fingerprint(getattr(obj, n), depth + 1, seen)
        except AttributeError:
            pass
    return out


def _step(env, src: str, data: dict, load) -> tuple:
    """One step of a history: parse from text, or fetch by name (with or without request globals), then render."""
    d = gd.decode(data)
    if not load:
        return oc.short(oc.outcome_of(lambda: env.from_string(src).render(**d)))
    name = "t" + str(HIST_TEMPLATES.index(src))
    if load == "globals":
        # v and f travel with the request, the rest with the render
        g = {k: d[k] for k in ("v", "f")}
        rest = {k: d[k] for k in d if k not in g}
        return oc.short(oc.outcome_of(lambda: env.get_template(name, globals=g).render(**rest)))
    if load == "bare":
        rest = {k: d[k] for k in d if k not in ("v", "f")}
        return oc.short(oc.outcome_of(lambda: env.get_template(name).render(**rest)))
    return oc.short(oc.outcome_of(lambda: env.get_template(name).render(**d)))


def eval_alone(payload) -> tuple:
    """(b) oracle: one render in a pristine process / fresh environment."""
    cfg, src, data, partials, *rest = payload
    env = envs.make_env(cfg, partials)
    return _step(env, src, data, rest[0] if rest else None)


def evaluate(case) -> Verdict:
    v = Verdict()
    if case["kind"] == "pure":
        src = case["src"] if "src" in case else gg.to_source(case["main"])
        env = envs.make_env(case["cfg"], PARTIALS)
        p = oc.outcome_of(lambda: env.from_string(src))
        if p[0] != "ok":
            v.labels.append("unparsed")
            return v
        t = p[1]
        data = gd.decode(case["data"])
        before = snap(data)
        s0, f0 = str(t), fingerprint(t.nodes)
        o1 = oc.short(oc.render(src, lambda: t, **data))
        after = snap(data)
        if after != before:
            culprit = next((k for k in data if snap(data[k]) != dict(before[1])[snap(k)]), "?")
            v.fail("data-mutated", f"render changed the data passed to it at {culprit!r}: {src!r:.300}")
        if str(t) != s0 or fingerprint(t.nodes) != f0:
            v.fail("template-mutated", f"render changed the parsed template: {src!r:.300}")
        data2 = copy.deepcopy(gd.decode(case["data"]))
        o2 = oc.short(oc.render(src, lambda: t, **data2))
        if o1 != o2:
            v.fail("second-render-differs", f"first={o1!r:.150} second={o2!r:.150}: {src!r:.300}")
        v.nontrivial = any(isinstance(x, (list, dict)) for x in data.values()) and ("src" in case or '"filters": [{' in core.canon(case["main"]))
        v.labels.append("pure:" + o1[0])
        return v
    # (b) history
    envs_by_cfg: dict = {}
    steps = case["steps"]
    prev_vals: dict = {}
    eqdist = False
    # pass 1: the history itself, undisturbed by the oracle
    gots = []
    for st_ in steps:
        key = st_["cfg"] % len(HIST_CFGS)
        cfg = HIST_CFGS[key]
        if key not in envs_by_cfg:
            envs_by_cfg[key] = envs.make_env(cfg, HIST_PARTIALS)
        env = envs_by_cfg[key]
        src = HIST_TEMPLATES[st_["t"] % len(HIST_TEMPLATES)]
        data = {"v": st_["v"], "w": st_["w"], "f": st_["f"], "lst": st_["lst"]}
        gots.append((cfg, src, data, _step(env, src, data, st_.get("load"))))
    # pass 2: every step evaluated alone
    for i, (cfg, src, data, got) in enumerate(gots):
        st_ = steps[i]
        if case.get("isolation") == "process":
            want = tuple(isolate.isolated("vf.props.c17_purity", "eval_alone", (cfg, src, data, HIST_PARTIALS, st_.get("load"))))
        else:
            _clear_known_caches()
            want = eval_alone((cfg, src, data, HIST_PARTIALS, st_.get("load")))
        if tuple(got) != tuple(want):
            tname = src[:40]
            v.fail(
                f"history-dependent:{'date' if 'date' in src else tname}",
                f"step {i}: {src!r} ({st_.get('load') or 'from_string'}) with {data!r:.200} in a used environment -> {got!r:.120}, alone -> {want!r:.120}; "
                f"history={[(s['t'] % len(HIST_TEMPLATES), s['v']) for s in steps[:i]]!r:.300}",
            )
            break
        dv = gd.decode(st_["v"])
        tk = st_["t"] % len(HIST_TEMPLATES)
        for pv in prev_vals.get(tk, []):
            try:
                if pv == dv and (type(pv) is not type(dv) or repr(pv) != repr(dv)):
                    eqdist = True
            except Exception:  # noqa: BLE001
                pass
        prev_vals.setdefault(tk, []).append(dv)
    v.nontrivial = eqdist
    v.labels.append("history" + (":equal-but-distinct" if eqdist else ""))
    return v


def _clear_known_caches() -> None:
    from liquid.environment import get_implicit_environment
    from liquid.lex import get_lexer
    from liquid.parser import get_parser

    for f in (get_lexer, get_parser, get_implicit_environment):
        f.cache_clear()
    from liquid.builtin.filters import misc

    fn = misc.date
    for _ in range(5):
        if hasattr(fn, "cache_clear"):
            fn.cache_clear()
            break
        fn = getattr(fn, "__wrapped__", None)
        if fn is None:
            break


def _profile() -> gg.Profile:
    return gg.Profile(
        nodes=["text", "out", "out", "echo", "assign", "assign", "capture", "if", "for", "for", "case", "cycle",
               "include", "render", "tablerow", "liquid", "incr"],
        partials=["p", "q"], dynamic_partial_names=False,
        filters=["sort", "sort_natural", "reverse", "uniq", "concat", "map", "compact", "where", "reject", "slice", "join",
                 "first", "last", "size", "sum", "split", "append", "default", "upcase", "find", "has"],
    )


@st.composite
def pure_cases(draw):
    r = core.rng(draw)
    cfg = {"mode": r.choice(["strict", "lax"]), "extra": True, "twice": False}
    main = gg.Gen(r, _profile()).template()
    data = gd.DataGen(r).data()
    # flat, unsorted, homogeneous lists: what in-place sort/reverse/uniq would disturb
    data["items"] = r.sample([3, 1, 2, 5, 4, 1], r.randint(2, 6))
    data["s"] = r.sample(["b", "C", "a", "B", "c"], r.randint(2, 5))
    data["n"] = [{"a": v, "name": str(v)} for v in r.sample([3, 1, 2], 3)]
    return {"kind": "pure", "cfg": cfg, "main": main, "data": data}


# every sequence filter (and the tags that iterate) applied straight to flat, unsorted lists, tuples and hashes of the render data
INPLACE_FILTERS = [
    "sort", "sort: 'a'", "sort_natural", "sort_numeric", "reverse", "uniq", "compact", "concat: items", "concat: other", "map: 'a'", "where: 'a'", "where: 'a', 1",
    "reject: 'a'", "join: ','", "first", "last", "size", "slice: 1, 2", "sum", "sum: 'a'", "find: 'a', 1", "find_index: 'a', 1", "has: 'a'", "index: 1",
    "push: 9", "pop", "shift", "unshift: 9", "append: 'x'", "json", "default: other", "sort | reverse", "concat: items | concat: items", "uniq | sort",
]
INPLACE_DATA = {
    "items": [3, 1, 2, 1], "other": [7, 8], "strs": ["b", "C", "a"], "rows": [{"a": 2, "n": "x"}, {"a": 1, "n": "y"}, {"a": None}, {"b": 0}],
    "mixed": [3, None, "a", None], "hash": {"k": [2, 1], "z": 1}, "one": [5],
}


def inplace_cases():
    cfg = {"mode": "lax", "extra": True, "strict_filters": False, "autoescape": False}
    for f in INPLACE_FILTERS:
        for var in ("items", "strs", "rows", "mixed", "hash.k", "one", "other"):
            for shape in ("{{ V | F }}", "{% assign r = V | F %}{{ r }}|{{ V | join: ',' }}", "{% for e in V %}{{ V | F }}{% endfor %}"):
                yield {"kind": "pure", "cfg": cfg, "src": shape.replace("V", var).replace("F", f), "data": INPLACE_DATA}


@st.composite
def histories(draw, isolation="caches"):
    r = core.rng(draw)
    steps = []
    t = r.randrange(len(HIST_TEMPLATES))
    by_name = r.random() < 0.3
    by_name_cfg = r.choice([2, 2, 0])
    for _ in range(r.randint(2, 8)):
        if r.random() < 0.4:
            t = r.randrange(len(HIST_TEMPLATES))
        steps.append({
            "cfg": r.randrange(len(HIST_CFGS)) if r.random() < 0.3 else 0,
            "t": t, "v": r.choice(HIST_VALUES), "w": r.choice(HIST_VALUES), "f": r.choice(FORMATS),
            "lst": r.choice([[3, 1, 2], [1, 1.0, True], [{"a": 1}, {"a": 2}], []]),
        })
        if by_name:
            # the template is fetched by name: data that travels with the request must not outlive it
            steps[-1]["load"] = r.choice(["globals", "globals", "bare", "bare", "args"])
            steps[-1]["cfg"] = by_name_cfg
    return {"kind": "history", "steps": steps, "isolation": isolation}


def campaign(ctx: core.Ctx, tier: str, shard: int, nshards: int) -> None:
    quick = tier == "quick"
    seed = core.sub_seed(ctx.seed, shard)
    for i, case in enumerate(inplace_cases()):
        if i % nshards == shard:
            ctx.run(case, enumerated=True)
    core.drive(pure_cases(), ctx.run, n=(3000 if quick else 60000) // nshards, seed=seed)
    core.drive(histories("caches"), ctx.run, n=(1200 if quick else 20000) // nshards, seed=seed + 1)
    if shard == 0:
        # forking from the zygote does not scale across concurrent shards; one shard does all of it
        core.drive(histories("process"), ctx.run, n=(60 if quick else 1500), seed=seed + 2)


def finish_kwargs(ctx: core.Ctx, tier: str) -> dict:
    return {
        "rule": (
            "(a) random templates heavy in array/string filters, loops and assign aliasing: after a render the data "
            "must equal its pre-render snapshot (type- and order-aware), str(template) and a structural fingerprint "
            "of the node tree must be unchanged, and a second render must give the same outcome. (b) histories of "
            "2-8 renders in shared environments over templates that reach memoised/stateful code (date, cycle, "
            "increment, ifchanged, offset:continue, caching loader) with equal-but-distinct values (1/1.0/True, "
            "'1'/Markup('1'), equal instants in different time zones, date vs datetime): every outcome must equal "
            "the same render evaluated alone - in a fresh environment after clearing the known memo caches, and "
            "(for a share of the histories) in a forked pristine process that has never rendered anything. "
            "Non-trivial (b) = two steps pass equal-but-not-identical values to the same template."
        ),
        "assumptions": ["current-time constructs (now, today, 'now' | date) and source edits are excluded, as the property allows"],
    }
