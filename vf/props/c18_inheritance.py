"""C18 - template inheritance resolves blocks to the most-derived definition (reference flattener)."""

from __future__ import annotations

from hypothesis import strategies as st

from .. import core
from .. import envs
from .. import outcome as oc
from ..core import Verdict
from ..ref import inherit as R

PID = "C18"
SHARDS = {"quick": 8, "thorough": 16}

BLOCKS = ["a", "b", "c", "d"]
DATA = {"x": "X", "y": 7}


def _items(r, depth: int, avail: list, in_block: bool, root: bool, tag: str) -> list:
    out = []
    # a block's default body may be empty (a placeholder for descendants to fill)
    for _ in range(r.choice([0, 1, 1, 2, 3, 4]) if in_block else r.randint(1, 4)):
        c = r.random()
        if c < 0.35 or not avail or depth <= 0:
            if in_block and r.random() < 0.35:
                out.append(["super"])
            elif r.random() < 0.25:
                out.append(["var", r.choice(["x", "y", "i"])])
            elif r.random() < 0.12:
                out.append(["text", r.choice([" ", "\n", "  "])])  # whitespace only
            else:
                out.append(["text", tag + r.choice(["t", "u", " ", "-"])])
        elif c < 0.9:
            name = avail.pop(r.randrange(len(avail)))
            out.append(["block", name, r.random() < 0.08, _items(r, depth - 1, avail, True, root, tag + name)])
        elif root and not in_block:
            out.append(["loop", _items(r, depth - 1, avail, False, root, tag)])
        else:
            out.append(["text", tag])
    return out


@st.composite
def cases(draw):
    r = core.rng(draw)
    n = r.choice([1, 2, 2, 3, 3, 4])
    chain = []
    for lvl in range(n):
        is_root = lvl == n - 1
        avail = r.sample(BLOCKS, r.randint(1, 4))
        t = {"pre": r.choice(["", "PRE", "p "]) if lvl == 0 and n > 1 else "", "items": _items(r, 2, avail, False, is_root, f"{lvl}")}
        if not is_root and r.random() < 0.2:
            t["wrap"] = r.choice(sorted(R.EXTENDS_WRAPS))
        chain.append(t)
    fault = r.choice([None] * 14 + ["cycle", "duplicate", "duplicate", "endblock", "endblock", "matching"])
    if fault == "cycle" and n == 1:
        fault = None
    if fault == "duplicate":
        t = r.choice(chain)
        bs = R.blocks_of(t["items"])
        if bs:
            t["items"].append(["block", bs[0][1], False, [["text", "dup"]]])
        else:
            fault = None
    elif fault == "endblock":
        t = r.choice(chain)
        bs = R.blocks_of(t["items"])
        if bs:
            bs[0].append("zz" if bs[0][1] != "zz" else "yy")
        else:
            fault = None
    elif fault == "matching":
        fault = None
        # matching endblock names are fine
        for t in chain:
            for b in R.blocks_of(t["items"]):
                if len(b) == 4:
                    b.append(b[1])
    return {"chain": chain, "fault": fault}


def evaluate(case) -> Verdict:
    v = Verdict()
    chain, fault = case["chain"], case.get("fault")
    if any(not b[1] for t in chain for b in R.blocks_of(t["items"])):
        v.labels.append("malformed(block without a name)")  # only a minimiser candidate can look like this
        return v
    n = len(chain)
    names = [f"t{i}" for i in range(n)]
    sources = {}
    for i, t in enumerate(chain):
        parent = names[i + 1] if i + 1 < n else (names[0] if fault == "cycle" else None)
        sources[names[i]] = R.to_source(t, parent)
    env = envs.make_env({"mode": "strict", "extra": True, "twice": False}, sources)
    o = oc.render(case, lambda: env.get_template("t0"), **DATA)
    mismatched = any(len(b) > 4 and b[4] != b[1] for t in chain for b in R.blocks_of(t["items"]))
    try:
        if fault == "cycle" or mismatched:
            raise R.Inheritance(fault or "endblock")
        want = ("ok", R.flatten(chain, DATA))
    except R.Recursive:
        # mutually containing blocks: any Liquid error is acceptable, a crash or a hang is not
        got = oc.short(o)
        if got[0] != "liquid":
            v.fail("recursive-blocks", f"sources={sources!r:.500} -> {got!r:.200}, expected a Liquid error")
        v.labels.append("recursive-blocks")
        return v
    except R.Required:
        want = ("liquid", "RequiredBlockError")
    except R.Inheritance:
        want = ("liquid", "TemplateInheritanceError")
    got = oc.short(o)
    if n == 1 and want[0] == "liquid" and want[1] == "TemplateInheritanceError" and not mismatched:
        # duplicate blocks in a template that is rendered on its own are never stacked
        v.labels.append("standalone-duplicate(not asserted)")
        return v
    if got != want:
        kind = fault or ("required" if want == ("liquid", "RequiredBlockError") else "resolution")
        v.fail(f"{kind}:len{n}", f"sources={sources!r:.600}\n   expected {want!r:.200}\n   observed {got!r:.200}")
    depth_super = sum(str(t).count("super") for t in chain)
    v.nontrivial = n >= 3 and (depth_super >= 2 or any(b for t in chain[:-1] for b in R.blocks_of(t["items"]) if R.blocks_of(b[3])))
    v.labels.append(f"chain:{n}" + (f":{fault}" if fault else ""))
    v.labels.append("outcome:" + (want[1] if want[0] == "liquid" else "ok"))
    return v


def campaign(ctx: core.Ctx, tier: str, shard: int, nshards: int) -> None:
    total = 3000 if tier == "quick" else 60000
    core.drive(cases(), ctx.run, n=max(1, total // nshards), seed=core.sub_seed(ctx.seed, shard))


def finish_kwargs(ctx: core.Ctx, tier: str) -> dict:
    return {
        "rule": (
            "Chains of 1-4 templates over four block names with nested blocks, partial overrides, required flags, "
            "{{ block.super }} at any depth, text before extends in the leaf, text outside blocks in children, "
            "variables and a loop around blocks in the root, optional matching endblock names; faults: circular "
            "extends, duplicate block names, mismatched endblock name. The rendered output (or error class) must "
            "equal the reference flattener's. Non-trivial = chain length >= 3 with a nested override or >= 2 "
            "super references."
        ),
        "assumptions": ["assignments inside blocks are out of scope (block scope is C14/C15's subject)"],
    }
