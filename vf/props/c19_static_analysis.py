"""C19 - static analysis reports everything a render can touch.

The dynamic trace is taken by wrapping library entry points from the harness
(no hook in the repository): Node.render[_async] (node stack, rendered tags),
Path.evaluate[_async] (variable reads with their static segments),
RenderContext.filter (filters applied).
"""

from __future__ import annotations

import re

from hypothesis import strategies as st

from .. import core
from .. import envs
from .. import outcome as oc
from ..core import Verdict
from ..gen import grammar as gg

PID = "C19"
SHARDS = {"quick": 8, "thorough": 16}
CFG = {"mode": "lax", "extra": True, "twice": True, "flags": {"logical_not_operator": True, "logical_parentheses": True, "ternary_expressions": True}}

POOL = ["a", "b", "x", "y", "n", "s"]
DATA = {
    "a": 1, "b": "bee", "c": [1, 2], "x": "gx", "y": [1, 2, 3], "n": 2, "s": "str", "xs": [1, 2], "items": [{"name": "i1", "title": "t1", "tags": ["t"]}, {"name": "i2", "title": "t2", "tags": []}],
    "user": {"name": "u", "a": {"b": 1, "name": "k"}, "title": "Dr", "id": 7, "tags": ["p", "q"], "first": 1, "last": 2, "x": "ux", "size": 3, "b": [5, 6]},
    "title": "T",
}


# ---------------------------------------------------------------------------
# tracing


class Trace:
    def __init__(self) -> None:
        self.stack: list = []
        self.reads: list = []  # (template name, Path object, tuple(stack), context)
        self.macro_defs: dict = {}  # macro name -> node stack at the place where the macro tag was rendered (its textual enclosure)
        self.direct: list = []  # (template name, root name, tuple(stack), origin): scope reads that no Path expression made
        self.in_path = 0
        self.tags: dict = {}
        self.filters: dict = {}
        self.partial_entries: dict = {}  # partial name -> set of binding signatures at entry


_ACTIVE: dict = {"trace": None}
_PATCHED: dict = {}


def _install() -> None:
    """Wrap the library's render / evaluate entry points once per process."""
    if _PATCHED:
        return
    from liquid import ast
    from liquid.builtin.expressions.path import Path
    from liquid.context import RenderContext

    orig_render, orig_render_async = ast.Node.render, ast.Node.render_async
    orig_eval, orig_eval_async = Path.evaluate, Path.evaluate_async
    orig_filter = RenderContext.filter

    def note_node(tr: Trace, node, context) -> None:
        from liquid.ast import BlockNode
        from liquid.ast import ConditionalBlockNode
        from liquid.builtin.tags.case_tag import MultiExpressionBlockNode
        from liquid.token import TOKEN_TAG

        if node.token.kind == TOKEN_TAG and not isinstance(node, (BlockNode, ConditionalBlockNode, MultiExpressionBlockNode)):
            tr.tags.setdefault(node.token.value, (context.template.name, node.token.start_index))

    def render(self, context, buffer):
        tr = _ACTIVE["trace"]
        if tr is None:
            return orig_render(self, context, buffer)
        note_node(tr, self, context)
        tr.stack.append(self)
        if type(self).__name__ == "MacroNode":
            tr.macro_defs[str(self.name)] = tuple(tr.stack)
        try:
            return orig_render(self, context, buffer)
        finally:
            tr.stack.pop()

    async def render_async(self, context, buffer):
        tr = _ACTIVE["trace"]
        if tr is None:
            return await orig_render_async(self, context, buffer)
        note_node(tr, self, context)
        tr.stack.append(self)
        if type(self).__name__ == "MacroNode":
            tr.macro_defs[str(self.name)] = tuple(tr.stack)
        try:
            return await orig_render_async(self, context, buffer)
        finally:
            tr.stack.pop()

    def evaluate(self, context):
        tr = _ACTIVE["trace"]
        if tr is None:
            return orig_eval(self, context)
        tr.reads.append((context.template.name, self, tuple(tr.stack), context, _origin(context, self.path[0])))
        tr.in_path += 1
        try:
            return orig_eval(self, context)
        finally:
            tr.in_path -= 1

    async def evaluate_async(self, context):
        tr = _ACTIVE["trace"]
        if tr is None:
            return await orig_eval_async(self, context)
        tr.reads.append((context.template.name, self, tuple(tr.stack), context, _origin(context, self.path[0])))
        tr.in_path += 1
        try:
            return await orig_eval_async(self, context)
        finally:
            tr.in_path -= 1

    orig_get, orig_get_async, orig_resolve = RenderContext.get, RenderContext.get_async, RenderContext.resolve

    def note_direct(context, root) -> None:
        tr = _ACTIVE["trace"]
        if tr is not None and not tr.in_path and isinstance(root, str):
            tr.direct.append((context.template.name, root, tuple(tr.stack), _origin(context, root)))

    def get(self, path, **kw):
        note_direct(self, path[0] if path else None)
        return orig_get(self, path, **kw)

    async def get_async(self, path, **kw):
        note_direct(self, path[0] if path else None)
        return await orig_get_async(self, path, **kw)

    def resolve(self, name, **kw):
        note_direct(self, name)
        return orig_resolve(self, name, **kw)

    RenderContext.get, RenderContext.get_async, RenderContext.resolve = get, get_async, resolve

    def filter_(self, name, token):
        tr = _ACTIVE["trace"]
        if tr is not None:
            tr.filters.setdefault(name, (self.template.name, token.start_index if token else -1))
        return orig_filter(self, name, token)

    ast.Node.render, ast.Node.render_async = render, render_async
    Path.evaluate, Path.evaluate_async = evaluate, evaluate_async
    RenderContext.filter = filter_
    _PATCHED["done"] = True


def _leaves(mapping) -> list:
    from liquid.utils import ReadOnlyChainMap

    if isinstance(mapping, ReadOnlyChainMap):
        out = []
        for m in mapping._maps:  # noqa: SLF001
            out.extend(_leaves(m))
        return out
    return [mapping]


def _origin(context, root) -> str:
    """Where the root name resolves right now: 'globals' (top-level render arguments / globals), 'other' or 'missing'."""
    if not isinstance(root, str):
        return "other"
    top = context
    while top.parent_context is not None:
        top = top.parent_context
    top_leaves = {id(m) for m in _leaves(top.globals)}
    for m in _leaves(context.scope):
        try:
            hit = root in m
        except TypeError:
            hit = False
        if hit:
            return "globals" if id(m) in top_leaves else "other"
    return "missing"


def _owns(node, path) -> bool:
    """Is ``path`` part of one of the node's own expressions?"""
    todo = list(node.expressions())
    while todo:
        e = todo.pop()
        if e is path:
            return True
        todo.extend(e.children())
    return False


def static_segments(path) -> list:
    from liquid.builtin.expressions.path import Path

    return [static_segments(s) if isinstance(s, Path) else s for s in path.path]


def _freeze(x):
    return tuple(_freeze(i) for i in x) if isinstance(x, list) else x


# ---------------------------------------------------------------------------


def bindings_of(node) -> tuple[set, bool, object]:
    """(names the node binds for what it encloses, isolated?, partial name or None).

    Derived from the node's own attributes for the common binding tags, so that the oracle does not
    lean on the block_scope()/partial_scope() methods the analysis itself uses; those are the
    fallback for other node types.
    """
    from liquid.ast import PartialScope

    cls = type(node).__name__
    if cls == "ForNode":
        return {str(node.expression.identifier), "forloop"}, False, None
    if cls == "TablerowNode":
        return {str(node.expression.identifier), "tablerowloop"}, False, None
    if cls == "WithNode":
        return {str(a.name) for a in node.args}, False, None
    if cls in ("IncludeNode", "RenderNode"):
        names = {str(a.name) for a in (node.args or [])}
        pname = getattr(node.name, "value", None)
        if node.var is not None:
            names.add(str(node.alias) if node.alias else str(pname).split(".", 1)[0])
        return names, cls == "RenderNode", str(pname) if pname is not None else ""
    names = set()
    bs = oc.outcome_of(lambda: list(node.block_scope()))
    if bs[0] == "ok":
        names |= {str(i) for i in bs[1]}
    ps = oc.outcome_of(node.partial_scope)
    if ps[0] == "ok" and ps[1] is not None:
        part = ps[1]
        return names | {str(i) for i in part.in_scope}, part.scope == PartialScope.ISOLATED, str(part.name) if isinstance(part.name, str) else ""
    return names, False, None


WORD_RE = re.compile(r"[A-Za-z_][A-Za-z0-9_]*")
ASSIGN_RE = re.compile(r"(?<!\w)(?:assign|capture|increment|decrement)[ \t]+([^\s=%|]+)")


def sources_of(case) -> dict:
    if "sources" in case:
        return dict(case["sources"])
    out = {"main": gg.to_source(case["main"])}
    for name, ast in case.get("partials", {}).items():
        out[name] = gg.to_source(ast)
    return out


def evaluate(case) -> Verdict:
    from liquid.ast import PartialScope

    _install()
    v = Verdict()
    sources = sources_of(case)
    env = envs.make_env(CFG, sources)
    p = oc.outcome_of(lambda: env.get_template("main"))
    if p[0] != "ok":
        v.labels.append("main-does-not-parse")
        return v
    t = p[1]
    for name in sources:
        if name != "main" and oc.outcome_of(lambda: env.get_template(name))[0] != "ok":  # noqa: B023
            v.labels.append("partial-does-not-parse")
            return v
    a = oc.outcome_of(lambda: t.analyze())
    if a[0] != "ok":
        v.labels.append("analyze:" + (a[1] if a[0] == "liquid" else a[0]))
        return v
    an = a[1]
    data = dict(DATA)
    data.update(case.get("data") or {})
    # every other word of the sources is a render argument too (macro, partial, group and parameter names ...): whatever
    # name a tag or filter looks up on its own then comes from the render arguments, where the second clause sees it
    for text in sources.values():
        for word in WORD_RE.findall(text):
            data.setdefault(word, "G")
    tr = Trace()
    _ACTIVE["trace"] = tr
    try:
        if case.get("async"):
            r = oc.outcome_async(lambda: t.render_async(**data))
        else:
            r = oc.outcome_of(lambda: t.render(**data))
    finally:
        _ACTIVE["trace"] = None
    if r[0] == "crash":
        v.labels.append("render-crash")  # C02's business; the trace up to the crash is still valid

    assigned = set()
    for text in sources.values():
        assigned.update(ASSIGN_RE.findall(text))

    reported_vars = {root: {_freeze(var.segments) for var in vs} for root, vs in an.variables.items()}
    obligations = 0
    in_partial = 0
    contexts_per_partial: dict = {}
    for tname, path, stack, _ctx, origin in tr.reads:
        segs = static_segments(path)
        root = segs[0]
        root_key = str(root)
        where = "main" if tname == "main" else "partial"
        # clause 1: the path is reported
        if root_key not in reported_vars:
            v.fail(f"variable-missing:{where}", f"{tname}: {path} was evaluated but root {root_key!r} is not in analysis.variables ({sorted(reported_vars)})\n   sources={sources!r:.400}")
        elif _freeze(segs) not in reported_vars[root_key]:
            v.fail(f"path-missing:{where}", f"{tname}: path {path} (segments {segs}) was evaluated; reported for {root_key!r}: {sorted(map(str, reported_vars[root_key]))[:6]}\n   sources={sources!r:.400}")
        # clause 2: globals
        if not isinstance(root, str):
            continue
        bound = set()
        entered = None
        for node in stack[:-1]:
            names, isolated, pname = bindings_of(node)
            if pname is not None:
                bound = set(names) if isolated else bound | names  # nothing from outside is visible in a rendered partial
                entered = (pname, tuple(sorted(bound)))
            else:
                bound |= names
        if entered and entered[0]:
            contexts_per_partial.setdefault(entered[0], set()).add(entered[1])
        calls = [nd for nd in stack[:-1] if type(nd).__name__ == "CallNode"]
        if calls:
            # inside a macro body the reference is textually where the macro was defined: the blocks around the macro tag
            # (a loop around the include that brought the definition in, say) are "a block binding that name" as well
            for nd in tr.macro_defs.get(str(calls[-1].name), ()):
                bound |= bindings_of(nd)[0]
        if origin != "globals" or root in bound or root in assigned:
            continue
        if type(stack[-1]).__name__ == "CallNode" and not _owns(stack[-1], path):
            # the default value of a macro parameter, evaluated when the macro is called: textually it sits in the
            # macro definition, whose enclosing bindings (an include's arguments, say) are what the static clause
            # looks at - exempt
            v.labels.append("macro-default-read")
            continue
        obligations += 1
        if tname != "main":
            in_partial += 1
        if root not in an.globals:
            v.fail(
                f"global-missing:{where}",
                f"{tname}: {path} read {root!r} from the render arguments (no enclosing block binds it, nothing assigns it) but "
                f"analysis.globals has only {sorted(an.globals)}\n   sources={sources!r:.500}",
            )
    # scope reads made by tags or filters themselves (not through a Path expression): the second clause applies to them too
    for tname, root, stack, origin in tr.direct:
        if origin != "globals" or root in assigned:
            continue
        bound = set()
        for node in stack[:-1]:
            names, isolated, pname = bindings_of(node)
            bound = (set(names) if isolated else bound | names) if pname is not None else bound | names
        if root in bound:
            continue
        obligations += 1
        if root not in an.globals:
            who = type(stack[-1]).__name__ if stack else "?"
            v.fail(
                f"global-missing:direct:{who}",
                f"{tname}: {who} read {root!r} from the render arguments without a variable expression, and analysis.globals "
                f"has only {sorted(an.globals)}\n   sources={sources!r:.500}",
            )
    for name, (tname, idx) in tr.filters.items():
        if name not in an.filters:
            v.fail("filter-missing", f"filter {name!r} was applied in {tname} at {idx} but analysis.filters has {sorted(an.filters)}\n   sources={sources!r:.400}")
    for name, (tname, idx) in tr.tags.items():
        if name not in an.tags:
            v.fail(f"tag-missing:{name}", f"tag {name!r} was rendered in {tname} at {idx} but analysis.tags has {sorted(an.tags)}\n   sources={sources!r:.400}")
    multi = any(len(c) > 1 for c in contexts_per_partial.values())
    v.nontrivial = (obligations >= 1 and (in_partial >= 1 or multi)) or (len(sources) == 1 and bool(tr.filters) and len(tr.reads) >= 1)
    v.labels.append("reads:" + ("0" if not tr.reads else "1-5" if len(tr.reads) <= 5 else "6+"))
    v.labels.append("obligations:" + ("0" if not obligations else "1+"))
    if multi:
        v.labels.append("partial-from-several-scopes")
    v.info = {"reads": len(tr.reads), "global_obligations": obligations, "filters": len(tr.filters), "tags": len(tr.tags)}
    return v


# ---------------------------------------------------------------------------


def profile(partials: list, in_partial: str = "") -> gg.Profile:
    return gg.Profile(
        nodes=list(gg.STD_NODES) + gg.EXTRA_NODES,
        names=POOL + ["items", "user", "title"],
        partials=partials,
        ternary=True,
        logical_not=True,
        parens=True,
        bracket_roots=True,
        dynamic_partial_names=False,
        in_partial=in_partial,
        depth=2,
        width=3,
    )


def wrapper(r, inner: str) -> str:
    """Put a partial call under a scope that may bind a pool name."""
    nm = r.choice(POOL)
    c = r.randrange(10)
    if c == 0:
        return inner
    if c == 1:
        return "{% for " + nm + " in xs %}" + inner + "{% endfor %}"
    if c == 2:
        return "{% tablerow " + nm + " in xs %}" + inner + "{% endtablerow %}"
    if c == 3:
        return "{% with " + nm + ": 1 %}" + inner + "{% endwith %}"
    if c == 4:
        return "{% if " + nm + " %}" + inner + "{% endif %}" + inner
    if c == 5:
        return "{% capture cap %}" + inner + "{% endcapture %}{{ cap }}"
    if c == 6:
        return "{% macro mm " + nm + " %}" + inner + "{% endmacro %}{% call mm 1 %}"
    if c == 7:
        return "{% for " + nm + " in empty %}{% else %}" + inner + "{% endfor %}"
    if c == 8:
        return "{% assign loc = " + nm + " %}" + inner
    return "{% case " + nm + " %}{% when 1 %}" + inner + "{% else %}" + inner + "{% endcase %}"


def call_of(r, partial: str) -> str:
    nm = r.choice(POOL)
    c = r.randrange(9)
    tag = r.choice(["include", "render"])
    if c <= 2:
        return "{% " + tag + " '" + partial + "' %}"
    if c == 3:
        return "{% " + tag + " '" + partial + "', " + nm + ": 1 %}"
    if c == 4:
        return "{% " + tag + " '" + partial + "' with xs as " + nm + " %}"
    if c == 5:
        return "{% " + tag + " '" + partial + "' for xs as " + nm + " %}"
    if c == 6:
        return "{% " + tag + " '" + partial + "' with xs %}"
    if c == 7:
        return "{% " + tag + " '" + partial + "', " + nm + ": " + r.choice(POOL) + ", " + r.choice(POOL) + ": 2 %}"
    return "{% " + tag + " '" + partial + "' for xs %}"


@st.composite
def composed(draw):
    """Main = a few wrapped calls of the same partials; partial bodies are generated."""
    r = core.rng(draw)
    pieces = []
    named = r.choice(POOL)  # a partial named like a variable: 'with/for' without an alias binds that name, a plain call does not
    for _ in range(r.randint(2, 4)):
        partial = r.choice(["p", "p", "q", named])
        pieces.append(wrapper(r, call_of(r, partial)))
        if r.random() < 0.3:
            pieces.append("{{ " + r.choice(POOL) + " }}")
    body_p = gg.to_source(gg.Gen(r, profile([], "render")).template())
    if r.random() < 0.5:
        body_p = "{{ " + r.choice(POOL) + " }}" + body_p
    body_q = gg.to_source(gg.Gen(r, profile([], "render")).template())
    if r.random() < 0.5:
        body_q += "{% " + r.choice(["include", "render"]) + " 'p' %}"
    body_n = "{{ " + named + r.choice(["", ".title", "[0]"]) + " }}" + gg.to_source(gg.Gen(r, profile([], "render")).template())
    return {"sources": {"main": "".join(pieces), "p": body_p, "q": body_q, named: body_n}, "async": r.random() < 0.25}


@st.composite
def generated(draw):
    r = core.rng(draw)
    main = gg.Gen(r, profile(["p", "q"])).template()
    partials = {"p": gg.Gen(r, profile([], "render")).template(), "q": gg.Gen(r, profile([], "render")).template()}
    return {"main": main, "partials": partials, "async": r.random() < 0.25}


@st.composite
def small(draw):
    """One or two nodes, so that each filter / tag / path occurs once and a name-level omission shows."""
    r = core.rng(draw)
    prof = profile([])
    prof.depth, prof.width = 1, 2
    g = gg.Gen(r, prof)
    main = [g.node(1) for _ in range(r.choice([1, 1, 2]))]
    if r.random() < 0.4:
        main = [{"k": "out", "e": g.filtered(), "ws": None}]
    return {"main": main, "partials": {}, "async": r.random() < 0.25}


FIXED = [
    {"sources": {"main": "{% for x in xs %}{% include 'p' %}{% endfor %}{% include 'p' %}", "p": "{{ x }}"}},
    {"sources": {"main": "{% include 'p' %}{% for x in xs %}{% include 'p' %}{% endfor %}", "p": "{{ x }}"}},
    {"sources": {"main": "{% render 'p' with xs as x %}{% render 'p' %}", "p": "{{ x }}"}},
    {"sources": {"main": "{% with x: 1 %}{% include 'p' %}{% endwith %}{% include 'p' %}", "p": "{{ x | upcase }}"}},
    {"sources": {"main": "{% include 'q' %}{% include 'p' %}", "p": "{{ x }}", "q": "{% for x in xs %}{% include 'p' %}{% endfor %}"}},
]


def campaign(ctx: core.Ctx, tier: str, shard: int, nshards: int) -> None:
    quick = tier == "quick"
    for i, case in enumerate(FIXED):
        if i % nshards == shard:
            ctx.run(case)
    core.drive(composed(), ctx.run, n=(2400 if quick else 60000) // nshards, seed=core.sub_seed(ctx.seed, shard))
    core.drive(generated(), ctx.run, n=(1600 if quick else 40000) // nshards, seed=core.sub_seed(ctx.seed, shard, 1))
    core.drive(small(), ctx.run, n=(4000 if quick else 80000) // nshards, seed=core.sub_seed(ctx.seed, shard, 2))


def finish_kwargs(ctx: core.Ctx, tier: str) -> dict:
    return {
        "rule": (
            "Templates whose main body calls the same generated partials 2-4 times (include / render, plain, with keyword "
            "arguments, with/for ... as name or without alias; one partial is named like a variable) from under different scopes (for, tablerow, with, capture, macro, for-else, "
            "case, after an assign), fully generated templates with two generated partials, and one- or two-node templates "
            "(so that each filter, tag and path occurs once); rendered (sync, 25% "
            "async) in lax mode with every pool name present in the render arguments. The render is traced from the "
            "harness: each Path evaluated (with its static segments, the node stack and the namespace its root "
            "resolves from), each filter looked up, each tag node rendered. Every traced path must be in "
            "analysis.variables, every filter in analysis.filters, every tag in analysis.tags; a root that resolved "
            "from the top-level render arguments, that no enclosing active block binds (for / tablerow / with / include / "
            "render bindings read off the nodes on the stack, reset at render boundaries; block_scope() for other node "
            "types) and that no template assigns "
            "anywhere must be in analysis.globals. Non-trivial = at least one such obligation was checked inside a "
            "partial, or a partial was entered from several distinct binding contexts; for single-template cases, at "
            "least one filter was applied and one path read."
        ),
        "assumptions": [
            "dynamic partial names and the translation tags/filters (which read variables named inside message strings) are outside the generated domain",
            "a name assigned anywhere in any of the templates is exempt from the globals clause (conservative reading of 'preceded in source order')",
        ],
    }
