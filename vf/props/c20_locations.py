"""C20 - reported locations point at the reported item."""

from __future__ import annotations

import re

from hypothesis import strategies as st

from .. import core
from .. import envs
from .. import outcome as oc
from ..core import Verdict
from ..gen import grammar as gg
from ..gen import mutate as gm

PID = "C20"
SHARDS = {"quick": 8, "thorough": 16}
CFG = {"mode": "strict", "extra": True, "twice": True, "flags": {"logical_not_operator": True, "logical_parentheses": True, "ternary_expressions": True}}

_ROOT_BRACKET = re.compile(r"\[\s*(['\"])")


def _at_name(text: str, index: int, name: str, *, bracket_ok: bool = False) -> bool:
    if not 0 <= index < len(text):
        return False
    if text.startswith(name, index):
        return True
    if bracket_ok:
        m = _ROOT_BRACKET.match(text, index)
        if m:
            return text.startswith(name, m.end())
    return False


_BREAKS = set("\n\r\v\f\x1c\x1d\x1e\x85\u2028\u2029")  # the line boundaries of str.splitlines, which the library uses


def _line_col(text: str, index: int) -> tuple[int, int]:
    """1-based line and 0-based column of ``index``, computed by walking the text."""
    line, col, i = 1, 0, 0
    while i < index:
        ch = text[i]
        if ch == "\r" and i + 1 < len(text) and text[i + 1] == "\n":
            if i + 1 < index:
                i += 2
                line += 1
                col = 0
            else:  # index is the LF of a CRLF pair: still on the same line
                i += 1
                col += 1
            continue
        if ch in _BREAKS:
            line += 1
            col = 0
        else:
            col += 1
        i += 1
    return line, col


def where_of(text: str, index: int) -> str:
    """Classify the construct a location falls in (for buckets)."""
    if not 0 <= index <= len(text):
        return "out-of-range"
    lo = max(text.rfind("{%", 0, index + 1), text.rfind("{{", 0, index + 1))
    if lo < 0:
        return "text"
    head = text[lo : lo + 14]
    if re.match(r"\{%-?\s*liquid", head):
        return "liquid-tag"
    return "tag" if head.startswith("{%") else "output"


def check_analysis(v: Verdict, env, sources: dict, entry: str) -> int:
    """Check every span of analyze() and analyze_tags(); returns the number of spans checked."""
    nspans = 0
    deep = 0
    t = env.get_template(entry)
    o = oc.outcome_of(lambda: t.analyze())
    if o[0] != "ok":
        v.labels.append("analyze:" + o[0])
        return 0
    a = o[1]

    def check(cat: str, name: str, span, bracket_ok: bool) -> None:
        nonlocal nspans, deep
        nspans += 1
        text = sources.get(span.template_name)
        if text is None:
            v.fail(f"{cat}:unknown-template", f"{cat} {name!r}: span names template {span.template_name!r}, not one of {sorted(sources)}")
            return
        if not _at_name(text, span.index, name, bracket_ok=bracket_ok):
            w = where_of(text, span.index)
            v.fail(
                f"{cat}:not-at-name:{w}",
                f"{cat} {name!r} reported at {span.template_name}:{span.index} where the source reads "
                f"{text[max(span.index, 0):span.index + 12]!r} (construct: {w})\n   source={text!r:.300}",
            )
            return
        lc = oc.outcome_of(lambda: span.line_col(text))
        if lc[0] != "ok":
            v.fail(f"{cat}:line_col-raises:{lc[1]}", f"Span({span.template_name!r}, {span.index}).line_col raised {oc.short(lc)} for {text!r:.200}")
        elif tuple(lc[1]) != _line_col(text, span.index):
            v.fail(f"{cat}:line_col-wrong", f"Span index {span.index} in {text!r:.200}: line_col {lc[1]} but expected {_line_col(text, span.index)}")
        if "\n" in text[: span.index] or span.template_name != entry:
            deep += 1

    for cat in ("variables", "globals"):
        for _root, vs in getattr(a, cat).items():
            for var in vs:
                seg0 = var.segments[0]
                if isinstance(seg0, str):
                    check(cat, seg0, var.span, True)
                else:
                    # the root is itself a path in brackets ([a.b].c): the location is the opening bracket
                    check(cat, "[", var.span, False)
    for root, vs in a.locals.items():
        for var in vs:
            check("locals", str(root), var.span, False)
    for cat in ("filters", "tags"):
        for name, spans in getattr(a, cat).items():
            for sp in spans:
                check(cat, name, sp, False)

    for tname, text in sources.items():
        ta = oc.outcome_of(lambda: env.analyze_tags_from_string(text, name=tname))  # noqa: B023
        if ta[0] != "ok":
            continue
        for cat in ("all_tags", "tags", "unclosed_tags", "unexpected_tags", "unknown_tags"):
            for name, spans in getattr(ta[1], cat).items():
                for sp in spans:
                    if sp.template_name != tname:
                        v.fail(f"tag-audit:{cat}:wrong-template", f"span for {name!r} names {sp.template_name!r}, analysed {tname!r}")
                        continue
                    check("tag-audit:" + cat, name, sp, False)
    v.info = {"spans": nspans, "deep": deep}
    return deep


def check_error(v: Verdict, env, src: str) -> bool:
    from liquid.exceptions import LiquidError

    try:
        env.from_string(src)
    except LiquidError as err:
        cls = type(err).__name__
        tok = getattr(err, "token", None)
        if tok is None:
            v.fail(f"error:no-position:{cls}", f"{cls}({err.args[0]!r:.80}) raised while parsing {src!r:.200} carries no token")
            return True
        if tok.source != src:
            v.fail(f"error:foreign-source:{cls}", f"{cls} for {src!r:.200}: token.source is {tok.source!r:.120}")
        elif not 0 <= tok.start_index <= len(src) or (tok.start_index == len(src) and not src):
            v.fail(f"error:position-outside:{cls}", f"{cls} for {src!r:.200}: start_index={tok.start_index}, source length {len(src)}")
        m = oc.outcome_of(lambda: str(err))
        if m[0] != "ok":
            at = "at-end" if tok.start_index >= len(src) else "inside"
            v.fail(f"error:message-raises:{m[1]}:{at}", f"str({cls}) raised {oc.short(m)}; token kind={tok.kind!r} value={tok.value!r:.40} start_index={tok.start_index} len(source)={len(src)}\n   source={src!r:.300}")
        else:
            c = oc.outcome_of(err.context)
            if c[0] == "ok" and c[1] is not None and 0 <= tok.start_index < len(src):
                line, col = c[1][0], c[1][1]
                if (line, col) != _line_col(src, tok.start_index):
                    v.fail("error:line-col-wrong", f"{cls} at index {tok.start_index} of {src!r:.200}: reported {line}:{col}, expected {_line_col(src, tok.start_index)}")
                elif f"{line}:{col}" not in m[1]:
                    v.fail("error:message-lacks-position", f"{cls}: formatted message lacks {line}:{col}: {m[1]!r:.200}")
        return True
    except Exception as err:  # noqa: BLE001
        v.labels.append("parse-crash:" + type(err).__name__)  # C02's business
    return False


def evaluate(case) -> Verdict:
    v = Verdict()
    kind = case["kind"]
    if kind == "analysis":
        if "sources" in case:
            sources = dict(case["sources"])
        else:
            sources = {"main": gg.to_source(case["main"])}
            for name, ast in case.get("partials", {}).items():
                sources[name] = gg.to_source(ast)
        env = envs.make_env(CFG, sources)
        p = oc.outcome_of(lambda: env.get_template("main"))
        if p[0] != "ok":
            v.labels.append("main-does-not-parse")
            raised = check_error(v, env, sources["main"])
            v.nontrivial = raised
            return v
        deep = check_analysis(v, env, sources, "main")
        v.nontrivial = deep >= 1
        v.labels.append("analysis")
        return v
    if kind == "error":
        env = envs.make_env(CFG, {"p": "P"})
        src = case["src"]
        raised = check_error(v, env, src)
        v.nontrivial = raised and ("\n" in src or "liquid" in src)
        v.labels.append("error:" + ("raised" if raised else "parsed"))
        return v
    raise core.HarnessError(kind)


# ---------------------------------------------------------------------------

TEXTS = ["a", "b", " ", "\n", "x", "-", ".", "é", "\r\n", "\n\n", "  \n  ", "日本", "\t", " ", "\x0c", "\x85"]


PARTIAL_NAMES = ["p", "q.liquid", "card.v2.html"]  # (a reported template name has to be the whole name, dots and all)


def profile(in_partial: str = "") -> gg.Profile:
    return gg.Profile(
        nodes=list(gg.STD_NODES) + gg.EXTRA_NODES,
        partials=PARTIAL_NAMES if not in_partial else [],
        text_alphabet=TEXTS,
        ternary=True,
        logical_not=True,
        parens=True,
        bracket_roots=True,
        odd_strings=True,
        dynamic_partial_names=False,
        in_partial=in_partial,
        depth=3,
        width=4,
    )


@st.composite
def analysis_cases(draw):
    r = core.rng(draw)
    main = gg.Gen(r, profile()).template()
    partials = {name: gg.Gen(r, profile("render")).template() for name in PARTIAL_NAMES}
    return {"kind": "analysis", "main": main, "partials": partials}


@st.composite
def error_cases(draw):
    r = core.rng(draw)
    m = gm.Mut(r)
    c = r.random()
    if c < 0.25:
        src = m.soup(1, 12)
    elif c < 0.35:
        src = m.liquid_soup()
    else:
        base = gg.to_source(gg.Gen(r, profile()).template())
        if c < 0.55:
            src = base[: r.randint(0, len(base))]
        else:
            src, _ = m.mutate(base, r.choice([1, 1, 2, 3]))
    if r.random() < 0.3:
        src = r.choice(["\n", "a\n\n", "\r\n", "é\n", "{% liquid\nassign a = 1\n%}\n"]) + src
    return {"kind": "error", "src": src}


FIXED_ERRORS = [
    "", "{% if a %}", "{% for i in a %}x", "{% if %}", "{{ a | }}", "{{", "{%", "{% liquid\nif a\n%}", "{% liquid\nassign = 1\n%}",
    "{% liquid\n\n  echo a |\n%}", "{% case a %}{% when %}", "a\n{% endif %}", "a\nb\n{% nosuch %}", "{% if a %}\n", "\n", "{% liquid if a %}",
    "{% capture %}", "{% assign 1 = 2 %}", "{% for i on a %}{% endfor %}", "{{ a[ }}", "{% include %}", "{% macro %}", "{% block %}",
]


def _campaign(ctx: core.Ctx, tier: str, shard: int, nshards: int) -> None:
    quick = tier == "quick"
    for i, src in enumerate(FIXED_ERRORS):
        if i % nshards == shard:
            ctx.run({"kind": "error", "src": src})
    core.drive(analysis_cases(), ctx.run, n=(2400 if quick else 60000) // nshards, seed=core.sub_seed(ctx.seed, shard))
    core.drive(error_cases(), ctx.run, n=(4000 if quick else 120000) // nshards, seed=core.sub_seed(ctx.seed, shard, 1))


def failure_subkey(case, bucket: str) -> str:
    return ""


def campaign(ctx: core.Ctx, tier: str, shard: int, nshards: int) -> None:
    _campaign(ctx, tier, shard, nshards)
    if tier == "thorough":
        # coverage-guided stage: one libFuzzer campaign per shard with this module's evaluate() as the in-target oracle
        from .. import fuzz

        fuzz.campaign(ctx, PID, runs=40000, seed=core.sub_seed(ctx.seed, shard, 9))


def _finish_kwargs(ctx: core.Ctx, tier: str) -> dict:
    return {
        "rule": (
            "Analysis: generated multi-line templates (text alphabet with LF, CRLF, form feed, U+2028, U+0085, non-ASCII; "
            "liquid tags, nested and bracketed paths, filters with arguments, ternaries, macros) with two generated "
            "partials; every Span of analyze() (variables, globals, locals, filters, tags) and of analyze_tags (all, "
            "tags, unclosed, unexpected, unknown) must name a loaded template and index its source at the reported "
            "name (a bracketed root ['name'] counts), and Span.line_col must agree with an independent line/column "
            "computation. Errors: prefixes and mutations of generated sources, token soup and fixed malformed "
            "sources parsed in strict mode; a raised LiquidError must carry a token whose source is the parsed text "
            "and whose start_index lies inside it, str(error) must not raise, and the reported line:column must match "
            "the index. Non-trivial: a checked location lies after the first line or in a partial / the erroring "
            "source is multi-line or has a liquid tag."
        ),
        "assumptions": ["a location 'at the name' means source[index:] starts with the name, or with [ quote name for bracketed roots"],
    }


def finish_kwargs(ctx: core.Ctx, tier: str) -> dict:
    kw = _finish_kwargs(ctx, tier)
    if tier == "thorough":
        from .. import fuzz

        kw["rule"] += fuzz.RULE_NOTE
        kw.setdefault("assumptions", []).append(fuzz.ASSUMPTION)
    return kw
