"""C21 - tag analysis is total and raises no false alarms."""

from __future__ import annotations

import itertools

from hypothesis import strategies as st

from .. import core
from .. import envs
from .. import outcome as oc
from ..core import Verdict
from ..gen import grammar as gg

PID = "C21"
SHARDS = {"quick": 8, "thorough": 16}

# tag name -> canned valid expression
ALPHABET = {
    "if": "x", "endif": "", "unless": "x", "endunless": "", "else": "", "elsif": "y", "case": "x", "when": "1",
    "endcase": "", "for": "i in a", "endfor": "", "break": "", "continue": "", "tablerow": "i in a",
    "endtablerow": "", "capture": "v", "endcapture": "", "ifchanged": "", "endifchanged": "", "assign": "v = 1",
    "echo": "x", "cycle": "1, 2", "increment": "v", "include": "'p'", "render": "'p'", "liquid": "", "#": "c",
    "macro": "m a", "endmacro": "", "call": "m 1", "with": "a: 1", "endwith": "", "block": "b", "endblock": "",
    "translate": "", "plural": "", "endtranslate": "", "nosuch": "z", "endnosuch": "", "end": "",
    "comment": "some note", "endcomment": "", "raw": "", "endraw": "", "doc": "", "enddoc": "",
}
NAMES = list(ALPHABET)
BLOCKS = ["if", "unless", "case", "for", "tablerow", "capture", "ifchanged", "macro", "with", "block", "translate"]
INNER = {"else", "elsif", "when", "break", "continue", "plural"}

_ENVS: dict = {}


def env(extra: bool):
    if extra not in _ENVS:
        _ENVS[extra] = envs.make_env({"mode": "strict", "extra": extra, "twice": False}, {"p": "P"})
    return _ENVS[extra]


def source_of(case) -> str:
    if "src" in case:
        return case["src"]
    sep = case.get("sep", "")
    hy = case.get("hy", 0)  # whitespace control: bit 0 = hyphen after every start delimiter, bit 1 = before every end delimiter
    lo, hi = "{%" + ("-" if hy & 1 else ""), ("-" if hy & 2 else "") + "%}"
    return sep.join(lo + " " + (n + " " + ALPHABET.get(n, "")).strip() + " " + hi for n in case["tags"])


def _summary(a) -> dict:
    return {cat: {k: sorted(sp.index for sp in spans) for k, spans in getattr(a, cat).items()} for cat in ("all_tags", "tags", "unclosed_tags", "unexpected_tags", "unknown_tags")}


def eval_inner_tags(case) -> Verdict:
    """An analysis with a custom inner_tags map must not change what later default analyses report."""
    v = Verdict()
    e = env(bool(case.get("extra")))
    src = source_of(case)
    before = oc.outcome_of(lambda: _summary(e.analyze_tags_from_string(src)))
    custom = oc.outcome_of(lambda: _summary(e.analyze_tags_from_string(case["other"], inner_tags=case["inner_tags"])))
    after = oc.outcome_of(lambda: _summary(e.analyze_tags_from_string(src)))
    if custom[0] != "ok":
        v.fail(f"inner-tags:raises:{custom[1]}", f"analyze_tags_from_string({case['other']!r}, inner_tags={case['inner_tags']!r}) raised {oc.short(custom)}")
    if before != after:
        v.fail("inner-tags:leaks-into-later-calls", f"default analysis of {src!r} changed after a call with inner_tags={case['inner_tags']!r}:\n   before {before!r:.300}\n   after  {after!r:.300}")
    v.nontrivial = True
    v.labels.append("inner-tags-purity")
    return v


def evaluate(case) -> Verdict:
    from liquid.exceptions import LiquidError
    from liquid.token import TOKEN_TAG

    if case.get("kind") == "inner_tags":
        return eval_inner_tags(case)
    v = Verdict()
    src = source_of(case)
    extra = bool(case.get("extra"))
    e = env(extra)
    try:
        tokens = list(e.tokenizer()(src))
    except LiquidError:
        v.labels.append("lexer-rejects")
        return v
    names = [t.value for t in tokens if t.kind == TOKEN_TAG]
    o = oc.outcome_of(lambda: e.analyze_tags_from_string(src))
    if o[0] != "ok":
        first_end = next((n for n in names if n.startswith("end")), names[0] if names else "")
        v.fail(f"raises:{o[1]}", f"analyze_tags_from_string({src!r}) raised {oc.short(o)} (first end tag {first_end!r})")
        v.nontrivial = True
        return v
    a = o[1]
    p = oc.outcome_of(lambda: e.from_string(src))
    parses = p[0] == "ok"
    if parses:
        for cat in ("unclosed_tags", "unexpected_tags", "unknown_tags"):
            m = getattr(a, cat)
            for name in sorted(m):
                v.fail(f"false-alarm:{cat}:{name}", f"{src!r} parses in strict mode but {cat}={dict(m)!r:.200}")
    registered = set(e.tags)
    block_names = {t.name for t in e.tags.values() if t.block}
    for n in set(names):
        if n and n not in registered and n not in INNER and not (n.startswith("end") and n[3:] in block_names):
            covered = n.startswith("end") and n[3:] in a.unknown_tags  # reported through its start tag
            if n not in a.unknown_tags and not covered:
                v.fail("missed-unknown", f"{src!r}: tag {n!r} is not registered but unknown_tags={dict(a.unknown_tags)!r:.200}")
    for b in BLOCKS:
        if b in names and b in registered and ("end" + b) not in names and b not in a.unclosed_tags:
            v.fail(f"missed-unclosed:{b}", f"{src!r}: block {b!r} has no end tag but unclosed_tags={dict(a.unclosed_tags)!r:.200}")
    nblocks = sum(1 for n in names if n in block_names)
    v.nontrivial = any(n.startswith("end") or n in INNER for n in names) or (parses and nblocks >= 2)
    v.labels.append("parses" if parses else "syntax-error")
    v.labels.append("env:" + ("extra" if extra else "default"))
    v.info = src
    return v


def _tag_names(case) -> list:
    from liquid.exceptions import LiquidError
    from liquid.token import TOKEN_TAG

    try:
        return [t.value for t in env(bool(case.get("extra"))).tokenizer()(source_of(case)) if t.kind == TOKEN_TAG]
    except LiquidError:
        return []


def has_stray_interrupt(case) -> bool:
    """A break/continue that no for/tablerow block encloses (it parses, and fails at render time)."""
    depth = 0
    for n in _tag_names(case):
        if n in ("for", "tablerow"):
            depth += 1
        elif n in ("endfor", "endtablerow"):
            depth = max(0, depth - 1)
        elif n in ("break", "continue") and depth == 0:
            return True
    return False


def has_extraneous_branch(case) -> bool:
    """An if/unless block with a branch after its else (ignored by the deliberately lax if parser)."""
    stack: list = []
    for n in _tag_names(case):
        if n in ("if", "unless"):
            stack.append(False)
        elif n in ("endif", "endunless") and stack:
            stack.pop()
        elif n == "else" and stack:
            if stack[-1]:
                return True
            stack[-1] = True
        elif n == "elsif" and stack and stack[-1]:
            return True
    return False


def failure_subkey(case, bucket: str) -> str:
    return f"{int(has_stray_interrupt(case))}{int(has_extraneous_branch(case))}"


KNOWN_PREDICATES = {
    "C21-stray-break": has_stray_interrupt,
    "C21-stray-continue": has_stray_interrupt,
    "C21-extraneous-else": has_extraneous_branch,
}


# ---------------------------------------------------------------------------


def _enumerate(ctx: core.Ctx, shard: int, nshards: int, maxlen: int, stride: int) -> None:
    idx = 0
    for n in range(1, maxlen + 1):
        for seq in itertools.product(NAMES, repeat=n):
            idx += 1
            if idx % nshards != shard:
                continue
            if stride > 1 and n == maxlen and ((idx // nshards) + ctx.seed) % stride:
                continue
            for extra in (False, True):
                ctx.run({"tags": list(seq), "extra": extra, "sep": "" if idx % 3 else " t ", "hy": (idx // 3) % 4}, enumerated=True)


@st.composite
def longer(draw):
    r = core.rng(draw)
    n = r.randint(4, 8)
    # bias towards balanced structures so that many sequences parse
    seq: list = []
    stack: list = []
    for _ in range(n):
        c = r.random()
        if c < 0.35:
            b = r.choice(BLOCKS)
            seq.append(b)
            stack.append(b)
        elif c < 0.6 and stack:
            seq.append("end" + stack.pop())
        elif c < 0.75:
            seq.append(r.choice(sorted(INNER)))
        else:
            seq.append(r.choice(NAMES))
    if r.random() < 0.6:
        while stack:
            seq.append("end" + stack.pop())
    return {"tags": seq, "extra": r.random() < 0.6, "sep": r.choice(["", " ", "\n", "x"]), "hy": r.choice([0, 0, 1, 2, 3])}


@st.composite
def valid_templates(draw):
    r = core.rng(draw)
    extra = r.random() < 0.5
    nodes = list(gg.STD_NODES) + (gg.EXTRA_NODES if extra else [])
    prof = gg.Profile(nodes=nodes, partials=["p"], dynamic_partial_names=False)
    return {"src": gg.to_source(gg.Gen(r, prof).template()), "extra": extra}


PURITY = [
    {"kind": "inner_tags", "tags": ["case", "when", "nosuch", "endcase", "nosuch"], "sep": "", "extra": False,
     "other": "{% case x %}{% when 1 %}{% nosuch z %}{% endcase %}", "inner_tags": {"case": ["when", "else", "nosuch"]}},
    {"kind": "inner_tags", "tags": ["if", "plural", "endif", "for", "when", "endfor"], "sep": " ", "extra": True,
     "other": "{% if x %}{% plural %}{% endif %}", "inner_tags": {"if": ["plural"], "for": ["when"]}},
]


def _campaign(ctx: core.Ctx, tier: str, shard: int, nshards: int) -> None:
    quick = tier == "quick"
    for case in PURITY:  # first, so that anything it leaks shows in everything that follows as well
        ctx.run(case)
    if quick:
        _enumerate(ctx, shard, nshards, 3, 2)
    else:
        _enumerate(ctx, shard, nshards, 4, 1)
    seed = core.sub_seed(ctx.seed, shard)
    core.drive(longer(), ctx.run, n=(6000 if quick else 80000) // nshards, seed=seed)
    core.drive(valid_templates(), ctx.run, n=(1500 if quick else 30000) // nshards, seed=seed + 1)


def campaign(ctx: core.Ctx, tier: str, shard: int, nshards: int) -> None:
    _campaign(ctx, tier, shard, nshards)
    if tier == "thorough":
        # coverage-guided stage: one libFuzzer campaign per shard with this module's evaluate() as the in-target oracle
        from .. import fuzz

        fuzz.campaign(ctx, PID, runs=40000, seed=core.sub_seed(ctx.seed, shard, 9))


def _finish_kwargs(ctx: core.Ctx, tier: str) -> dict:
    return {
        "rule": (
            f"All sequences of <= {3 if tier == 'quick' else 4} tag tokens"
            + (" (every second one of length 3)" if tier == "quick" else "")
            + f" over an alphabet of {len(NAMES)} registered block/inner/end/inline/unknown tag names with a canned valid "
            "expression each, with and without text between them, in the default and the extra environment; "
            "structure-biased random sequences of 4-8 tags; generated valid templates. Oracle: analysis returns; a "
            "source that parses in strict mode has no unclosed/unexpected/unknown report; unregistered names are "
            "reported unknown and block tags without end tag unclosed. Non-trivial = contains an end or inner tag, "
            "or parses with >= 2 block tags."
        ),
        "exhaustive": True,
        "case_predicates": KNOWN_PREDICATES,
        "assumptions": [
            "'parses' means Environment.from_string succeeds in Mode.STRICT in the same environment",
            "every shard starts with two calls passing a custom inner_tags map and checks that the default analysis of a fixed source is the same before and after",
        ],
    }


def finish_kwargs(ctx: core.Ctx, tier: str) -> dict:
    kw = _finish_kwargs(ctx, tier)
    if tier == "thorough":
        from .. import fuzz

        kw["rule"] += fuzz.RULE_NOTE
        kw.setdefault("assumptions", []).append(fuzz.ASSUMPTION)
    return kw
