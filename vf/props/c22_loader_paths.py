"""C22 - template loaders never read outside their search paths."""

from __future__ import annotations

import atexit
import os
import shutil
import sys
import tempfile

from hypothesis import strategies as st

from .. import core
from .. import outcome as oc
from ..core import Verdict

PID = "C22"
SHARDS = {"quick": 8, "thorough": 16}

_SB: dict = {}

INSIDE_FILES = ["a.liquid", "b", "sub/b.liquid", "sub/deep/c.liquid", "é.liquid", "with space.liquid", "d.txt", "sub/e"]
OUTSIDE_FILES = ["secret.liquid", "secret", "sub/b.liquid", "a.liquid"]


def sandbox() -> dict:
    """A per-process directory tree: search dirs with unique files, decoys outside, symlinks."""
    if _SB.get("pid") == os.getpid():
        return _SB
    base = tempfile.mkdtemp(prefix="vf-c22-")
    pkgname = f"vfpkg_{os.getpid()}"
    layout = {
        "root": os.path.join(base, "root"),
        "root2": os.path.join(base, "root2"),
        "outside": os.path.join(base, "outside"),
        "pkg": os.path.join(base, pkgname, "templates"),
    }
    contents: dict = {}

    def write(path: str, text: str) -> None:
        os.makedirs(os.path.dirname(path), exist_ok=True)
        with open(path, "w", encoding="utf-8") as fd:
            fd.write(text)
        contents[os.path.realpath(path)] = text

    for area in ("root", "pkg"):
        for rel in INSIDE_FILES:
            write(os.path.join(layout[area], rel), f"INSIDE:{area}:{rel}")
    write(os.path.join(layout["root2"], "only2.liquid"), "INSIDE:root2:only2.liquid")
    write(os.path.join(layout["root2"], "a.liquid"), "INSIDE:root2:a.liquid")
    for rel in OUTSIDE_FILES:
        write(os.path.join(layout["outside"], rel), f"DECOY:{rel}")
    write(os.path.join(base, pkgname, "__init__.py"), "")
    write(os.path.join(base, pkgname, "private.liquid"), "DECOY:pkg-private")
    for area in ("root", "pkg"):
        os.symlink(os.path.join(layout["outside"], "secret.liquid"), os.path.join(layout[area], "link_out.liquid"))
        os.symlink(layout["outside"], os.path.join(layout[area], "link_dir"))
        os.symlink(os.path.join(layout[area], "a.liquid"), os.path.join(layout[area], "link_in.liquid"))
        # a target outside the search dir whose path has the search dir's path as a string prefix (root -> root2)
        os.symlink(os.path.join(layout["root2"], "only2.liquid"), os.path.join(layout[area], "link_sibling.liquid"))
    if base not in sys.path:
        sys.path.insert(0, base)
    _SB.update(pid=os.getpid(), base=base, layout=layout, contents=contents, pkgname=pkgname)
    atexit.register(cleanup)
    return _SB


def cleanup() -> None:
    if _SB.get("pid") == os.getpid() and _SB.get("base"):
        shutil.rmtree(_SB["base"], ignore_errors=True)
        if _SB["base"] in sys.path:
            sys.path.remove(_SB["base"])
        _SB.clear()


def expand(name: str) -> str:
    sb = sandbox()
    name = name.replace("$BOUT", sb["layout"]["outside"].replace("/", "\\")).replace("$BPKG", os.path.dirname(sb["layout"]["pkg"]).replace("/", "\\"))
    return name.replace("$OUT", sb["layout"]["outside"]).replace("$ROOT", sb["layout"]["root"]).replace("$BASE", sb["base"])


def make_loader(cfg: dict):
    from liquid import CachingFileSystemLoader
    from liquid import FileSystemLoader
    from liquid import PackageLoader

    sb = sandbox()
    lay = sb["layout"]
    kind = cfg["loader"]
    if kind == "pkg":
        return PackageLoader(sb["pkgname"], package_path="templates", ext=cfg.get("ext") or ".liquid"), [lay["pkg"]]
    paths = [lay["root"], lay["root2"]] if cfg.get("two") else [lay["root"]]
    kw = {"ext": cfg.get("ext"), "reject_symlinks": bool(cfg.get("reject"))}
    if kind == "cfs":
        return CachingFileSystemLoader(paths, **kw), paths
    return FileSystemLoader(paths, **kw), paths


def _inside(path: str, dirs: list, real: bool) -> bool:
    norm = os.path.realpath(path) if real else os.path.normpath(os.path.abspath(path))
    for d in dirs:
        dd = os.path.realpath(d) if real else os.path.normpath(os.path.abspath(d))
        if norm == dd or norm.startswith(dd + os.sep):
            return True
    return False


def evaluate(case) -> Verdict:
    from liquid import Environment

    v = Verdict()
    sb = sandbox()
    name = expand(case["name"])
    cfg = case["cfg"]
    loader, dirs = make_loader(cfg)
    env = Environment(loader=loader)

    def summ(t):
        return (str(t.path), str(t))

    for mode in ("sync", "async"):
        if mode == "sync":
            o = oc.outcome_of(lambda: summ(env.get_template(name)))
        else:
            o = oc.outcome_async(lambda: _load_async(env, name, summ))
        label = f"{cfg['loader']}:{mode}"
        if o[0] == "crash":
            v.fail(f"raises:{o[1]}:{cfg['loader']}", f"{label} get_template({case['name']!r}) raised {o[1]}: {o[3]!r:.150}")
        elif o[0] == "liquid":
            if o[1] != "TemplateNotFoundError":
                v.fail(f"raises:{o[1]}:{cfg['loader']}", f"{label} get_template({case['name']!r}) raised {o[1]}")
        else:
            path, text = o[1]
            lexical_ok = _inside(path, dirs, real=False)
            real_ok = _inside(path, dirs, real=True)
            if not lexical_ok:
                v.fail(f"escaped:{cfg['loader']}", f"{label} get_template({case['name']!r}) returned {text!r} from {path!r}, outside {dirs}")
            elif cfg.get("reject") and not real_ok:
                v.fail(f"followed-symlink-out:{cfg['loader']}", f"{label} reject_symlinks=True but {case['name']!r} resolved to {os.path.realpath(path)!r}")
            elif text.startswith("DECOY") and real_ok:
                v.fail(f"decoy-content:{cfg['loader']}", f"{label} {case['name']!r} returned decoy content {text!r}")
            want = sb["contents"].get(os.path.realpath(path))
            if want is not None and want != text:
                v.fail(f"wrong-content:{cfg['loader']}", f"{label} {case['name']!r}: {path!r} holds {want!r} but the template is {text!r}")
        v.labels.append(f"{mode}:{o[0] if o[0] != 'liquid' else 'not-found'}")
        if cfg["loader"] == "cfs":
            # "cached or not": the same name on a loader whose cache already holds the directory's ordinary templates
            # must resolve exactly as it does on a cold one (a cache keyed more loosely than the path check would
            # answer names that the loader refuses)
            wl, _ = make_loader(cfg)
            wenv = Environment(loader=wl)
            for wn in WARM:
                oc.outcome_of(lambda: wenv.get_template(wn))  # noqa: B023
            if mode == "sync":
                w = oc.outcome_of(lambda: summ(wenv.get_template(name)))
            else:
                w = oc.outcome_async(lambda: _load_async(wenv, name, summ))
            if oc.short(w)[:2] != oc.short(o)[:2]:
                v.fail("warm-cache-resolves-differently", f"{label} get_template({case['name']!r}): cold loader {oc.short(o)!r:.120}, "
                       f"after loading {WARM}: {oc.short(w)!r:.120}")
    n = case["name"]
    v.nontrivial = ".." in n or n.startswith(("/", "$", "\\")) or "link_" in n or any(ord(c) < 32 for c in n) or len(n) > 255
    v.labels.append("loader:" + cfg["loader"] + ("+reject" if cfg.get("reject") else ""))
    return v


async def _load_async(env, name, summ):
    return summ(await env.get_template_async(name))


WARM = ["a.liquid", "a", "b", "sub/b.liquid", "sub/deep/c.liquid", "sub/e", "d.txt", "only2.liquid", "é.liquid"]
SEGMENTS = [
    "a.liquid", "a", "b", "sub", "deep", "c.liquid", "b.liquid", "..", ".", "", "outside", "link_out.liquid", "link_out",
    "link_dir", "link_in.liquid", "link_sibling.liquid", "secret.liquid", "secret", "é.liquid", "é", "with space.liquid", "d.txt", "e",
    "a\x00b", "a\nb", "\x7f", "x" * 300, "y" * 300 + ".liquid", "~", "C:", "private.liquid", "__init__.py", "templates",
    "root", "only2.liquid", "*", "a.liquid\x00.txt", "root2", "root2", "outside",
]
PREFIXES = ["", "", "", "", "/", "$OUT/", "$ROOT/", "$BASE/", "//", "./", "../", "../../", "$BASE/outside/../outside/", "..\\", "..\\..\\", "\\", "$BOUT\\", "$BPKG\\", "..\\outside\\", "..\\..\\outside\\"]
CONFIGS = [
    {"loader": "fs"}, {"loader": "fs", "ext": ".liquid"}, {"loader": "fs", "reject": True}, {"loader": "fs", "ext": ".liquid", "reject": True, "two": True},
    {"loader": "fs", "two": True}, {"loader": "cfs", "ext": ".liquid"}, {"loader": "cfs", "reject": True}, {"loader": "pkg"},
    {"loader": "pkg", "ext": ".txt"},
]
FIXED_NAMES = [
    "a.liquid", "a", "sub/b.liquid", "sub/deep/c.liquid", "../outside/secret.liquid", "$OUT/secret.liquid", "$OUT/secret", "link_out.liquid",
    "link_out", "link_dir/secret.liquid", "link_in.liquid", "link_sibling.liquid", "sub/../a.liquid", "sub/../../outside/secret", "./a.liquid", "a.liquid/",
    "", ".", "..", "/", "a\x00b", "x" * 300, "sub/" + "y" * 300 + ".liquid", "$ROOT/a.liquid", "../private.liquid", "$BASE/outside/a.liquid",
    "é.liquid", "é", "with space.liquid", "only2.liquid", "missing", "missing.liquid", "/etc/passwd", "../../../../../../etc/passwd",
    "../root2/only2.liquid", "sub/../../root2/only2.liquid", "../root2/only2", "../root2/a.liquid", "../outside/../root2/only2.liquid",
    "nothing/../a.liquid", "a.liquid/../a.liquid", "sub/./b.liquid", "sub//b.liquid", "sub/deep/../b.liquid", "sub/deep/../../a.liquid",
    "./sub/../a", "A.LIQUID", "a.liquid ", " a.liquid", "sub/../sub/e", "sub/deep/../../d.txt", "a.liquid/.", "sub/b.liquid/..",
    "..\\private.liquid", "sub\\..\\..\\private.liquid", "..\\..\\outside\\secret.liquid", "$BOUT\\secret.liquid", "sub\\b.liquid", "..\\outside\\secret",
]


@st.composite
def cases(draw):
    r = core.rng(draw)
    n = r.choice([1, 1, 2, 2, 3, 4])
    sep = "\\" if r.random() < 0.12 else "/"  # a backslash is an ordinary file-name character here, never a separator
    name = r.choice(PREFIXES) + sep.join(r.choice(SEGMENTS) for _ in range(n)) + r.choice(["", "", "", ".liquid", "/", ".txt"])
    return {"name": name, "cfg": r.choice(CONFIGS)}


def campaign(ctx: core.Ctx, tier: str, shard: int, nshards: int) -> None:
    try:
        idx = 0
        for name in FIXED_NAMES:
            for cfg in CONFIGS:
                idx += 1
                if idx % nshards == shard:
                    ctx.run({"name": name, "cfg": cfg})
        total = 4000 if tier == "quick" else 60000
        core.drive(cases(), ctx.run, n=max(1, total // nshards), seed=core.sub_seed(ctx.seed, shard))
    finally:
        cleanup()


def finish_kwargs(ctx: core.Ctx, tier: str) -> dict:
    cleanup()
    return {
        "rule": (
            "A sandbox tree (search directories with uniquely labelled files, decoy files outside them, symlinks "
            "pointing out of and into the tree, a throw-away Python package) is built per process; names are built "
            "from 36 segments (valid names, '..', '.', empty, link names, unicode, NUL and control characters, "
            "300-character names) joined by '/' (12%: by a backslash, which is an ordinary file-name character on this "
            "platform), with relative/absolute prefixes (also spelled with backslashes) and suffixes, plus 39 fixed hostile "
            f"names, against {len(CONFIGS)} loader configurations (FileSystemLoader with/without ext, reject_symlinks, "
            "two search paths; CachingFileSystemLoader; PackageLoader; the tree has a sibling directory whose name starts "
            "with the search directory's name), each synchronously and asynchronously. A "
            "result must be TemplateNotFoundError or a template whose path is lexically (and with reject_symlinks "
            "really) inside a search directory and whose text is that file's content. Non-trivial = the name has "
            "'..', an absolute prefix, a symlink component, a control character or is longer than 255 characters."
        ),
        "assumptions": ["with reject_symlinks off, following a symlink that lives inside the search directory is allowed"],
    }
