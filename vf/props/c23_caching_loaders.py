"""C23 - caching loaders are transparent (histories vs the non-caching twin)."""

from __future__ import annotations

import os

from hypothesis import strategies as st

from .. import core
from .. import envs
from .. import outcome as oc
from ..core import Verdict

PID = "C23"
SHARDS = {"quick": 8, "thorough": 16}

NAMES = ["t1", "t2", "dir/t3"]
NSS = ["u1", "u2", 0]  # 0 is a namespace like any other (a tenant id), not "no namespace"
NS_KINDS = ("cns", "cnsfs", "cnschoice")
KINDS = ["cdict", "cchoice", "cfs", "cns", "cnsfs", "cnschoice"]  # cnschoice: choice loader over namespace-aware children


def text_of(ns, name: str, version: int) -> str:
    return f"[{'-' if ns is None else ns}/{name}#v{version}]" + "{{ g }}"


def _ns_of(ns_key, context, kwargs):
    if ns_key in kwargs:
        return kwargs[ns_key]
    if context is not None:
        try:
            return context.globals[ns_key]
        except KeyError:
            return None
    return None


def _classes():
    from liquid import CachingLoaderMixin
    from liquid import DictLoader
    from liquid import FileSystemLoader

    class NsDictLoader(DictLoader):
        """Looks templates up under '<namespace>/<name>' when a namespace is given."""

        def get_source(self, env, template_name, *, context=None, **kwargs):
            ns = _ns_of("ns", context, kwargs)
            key = f"{ns}/{template_name}" if ns is not None else template_name
            src = super().get_source(env, key)
            return type(src)(src.text, template_name, src.uptodate, src.matter)

    class CachingNsDictLoader(CachingLoaderMixin, NsDictLoader):
        def __init__(self, templates, *, auto_reload=True, namespace_key="", capacity=300):
            super().__init__(auto_reload=auto_reload, namespace_key=namespace_key, capacity=capacity)
            NsDictLoader.__init__(self, templates)

    class NsFileSystemLoader(FileSystemLoader):
        """Reads '<search path>/<namespace>/<name>' when a namespace is given."""

        def get_source(self, env, template_name, *, context=None, **kwargs):
            ns = _ns_of("ns", context, kwargs)
            return super().get_source(env, f"{ns}/{template_name}" if ns is not None else template_name)

        async def get_source_async(self, env, template_name, *, context=None, **kwargs):
            ns = _ns_of("ns", context, kwargs)
            return await super().get_source_async(env, f"{ns}/{template_name}" if ns is not None else template_name)

    class CachingNsFileSystemLoader(CachingLoaderMixin, NsFileSystemLoader):
        def __init__(self, search_path, *, auto_reload=True, namespace_key="", capacity=300):
            super().__init__(auto_reload=auto_reload, namespace_key=namespace_key, capacity=capacity)
            NsFileSystemLoader.__init__(self, search_path)

    return NsDictLoader, CachingNsDictLoader, NsFileSystemLoader, CachingNsFileSystemLoader


class Store:
    """The template sources behind a loader pair, editable."""

    def __init__(self, kind: str, scratch):
        self.kind = kind
        self.scratch = scratch
        self.dict_a: dict = {}
        self.dict_b: dict = {}
        self.versions: dict = {}  # (ns, name) -> [texts...]
        self.tick = 1_700_000_000
        self.low = 1_600_000_000

    def keys(self):
        if self.kind in NS_KINDS:
            return [(ns, n) for ns in [None, *NSS] for n in NAMES]
        return [(None, n) for n in NAMES]

    def write(self, ns, name: str, version: int, back: bool = False) -> None:
        text = text_of(ns, name, version)
        self.versions.setdefault((ns, name), []).append(text)
        key = f"{ns}/{name}" if ns is not None else name
        if self.kind in ("cfs", "cnsfs"):
            path = self.scratch.write(key, text)
            # every edit gets a modification time of its own; "back" edits get an older one than anything before
            # (a restored backup, cp -p, rsync -t)
            if back:
                self.low -= 3600
                stamp = self.low
            else:
                self.tick += 10
                stamp = self.tick
            os.utime(path, (stamp, stamp))
        elif self.kind in ("cchoice", "cnschoice"):
            (self.dict_a if name != "t2" else self.dict_b)[key] = text
        else:
            self.dict_a[key] = text


    def delete(self, ns, name: str) -> None:
        """Remove the template from the backing store (a later edit brings it back)."""
        key = f"{ns}/{name}" if ns is not None else name
        if self.kind in ("cfs", "cnsfs"):
            try:
                os.unlink(os.path.join(self.scratch.path, key))
            except FileNotFoundError:
                pass
        else:
            self.dict_a.pop(key, None)
            self.dict_b.pop(key, None)


def build(case, scratch):
    from liquid import CachingChoiceLoader
    from liquid import CachingDictLoader
    from liquid import CachingFileSystemLoader
    from liquid import ChoiceLoader
    from liquid import DictLoader
    from liquid import Environment
    from liquid import FileSystemLoader

    NsDict, CNsDict, NsFs, CNsFs = _classes()
    kind = case["kind"]
    store = Store(kind, scratch)
    for ns, name in store.keys():
        store.write(ns, name, 0)
    kw = {"auto_reload": case["auto_reload"], "capacity": case["cap"], "namespace_key": "ns" if case["nskey"] else ""}
    if kind == "cdict":
        caching, twin = CachingDictLoader(store.dict_a, **kw), DictLoader(store.dict_a)
    elif kind == "cchoice":
        caching = CachingChoiceLoader([DictLoader(store.dict_a), DictLoader(store.dict_b)], **kw)
        twin = ChoiceLoader([DictLoader(store.dict_a), DictLoader(store.dict_b)])
    elif kind == "cnschoice":
        # the children select the source by the namespace keyword / context global; the choice loader has to pass both on
        caching = CachingChoiceLoader([NsDict(store.dict_a), NsDict(store.dict_b)], **kw)
        twin = ChoiceLoader([NsDict(store.dict_a), NsDict(store.dict_b)])
    elif kind == "cfs":
        caching, twin = CachingFileSystemLoader(scratch.path, **kw), FileSystemLoader(scratch.path)
    elif kind == "cns":
        caching, twin = CNsDict(store.dict_a, **kw), NsDict(store.dict_a)
    elif kind == "cnsfs":
        caching, twin = CNsFs(scratch.path, **kw), NsFs(scratch.path)
    else:
        raise core.HarnessError(kind)
    eg = {"eg": 1} if case.get("env_globals") else None
    return store, Environment(loader=caching, globals=eg), Environment(loader=twin, globals=eg)


def _request(env, op):
    """Perform one request; returns a comparable summary."""
    _, mode, name, how, ns, glob = op
    kwargs = {"ns": ns} if how == "kw" and ns is not None else {}
    g = {"g": glob} if glob is not None else None

    def summ(t, rendered):
        return {"name": t.name, "source": str(t), "globals": sorted(t.globals.items()), "render": rendered}

    if how == "ctx":
        # through a tag: the namespace comes from the render context's globals
        wrapper = env.from_string("{% include '" + name + "' %}|{% render '" + name + "' %}")
        data = {"ns": ns} if ns is not None else {}
        if glob is not None:
            data["g"] = glob
        if mode == "sync":
            return oc.short(oc.outcome_of(lambda: {"render": wrapper.render(**data)}))
        return oc.short(oc.outcome_async(lambda: _wrap_async(wrapper, data)))
    if mode == "sync":
        def go():
            t = env.get_template(name, globals=g, **kwargs)
            return summ(t, t.render())
        return oc.short(oc.outcome_of(go))
    return oc.short(oc.outcome_async(lambda: _get_async(env, name, g, kwargs, summ)))


async def _wrap_async(wrapper, data):
    return {"render": await wrapper.render_async(**data)}


async def _get_async(env, name, g, kwargs, summ):
    t = await env.get_template_async(name, globals=g, **kwargs)
    return summ(t, await t.render_async())


def evaluate(case) -> Verdict:
    v = Verdict()
    kind = case["kind"]
    scratch = envs.Scratch() if kind in ("cfs", "cnsfs") else None
    try:
        store, cenv, tenv = build(case, scratch)
        version = 0
        seen_modes: dict = {}
        seen_ns: dict = {}
        edited = False
        deleted: set = set()
        nontrivial = False
        for step, op in enumerate(case["ops"]):
            if op[0] == "edit":
                _, ns, name = op[:3]
                if (ns, name) not in store.versions:
                    continue
                version += 1
                store.write(ns, name, version, back=len(op) > 3 and bool(op[3]))
                deleted.discard((ns, name))
                edited = True
                continue
            if op[0] == "delete":
                _, ns, name = op[:3]
                if (ns, name) in store.versions:
                    store.delete(ns, name)
                    deleted.add((ns, name))
                    edited = True
                continue
            got = _request(cenv, op)
            want = _request(tenv, op)
            _, mode, name, how, ns, glob = op
            eff_ns = ns if (how in ("kw", "ctx") and kind in NS_KINDS) else None
            if edited:
                nontrivial = True
            if seen_modes.get(name, mode) != mode:
                nontrivial = True
            seen_modes[name] = mode
            if seen_ns.get(name, ns) != ns:
                nontrivial = True
            seen_ns[name] = ns
            if got == want:
                continue
            clause = "other"
            if (not case["auto_reload"] and got[0] == "ok" and want[0] != "ok" and how != "ctx" and (eff_ns, name) in deleted
                    and got[1].get("source") in store.versions.get((eff_ns, name), [])):
                continue  # without auto reload a template removed from the store may go on being served from the cache
            if not case["auto_reload"] and how == "ctx" and deleted:
                continue  # (rendered through tags after a removal without auto reload: any mixture of cached parts is acceptable)
            if got[0] != want[0] or got[0] != "ok":
                clause = f"{want[0]}-vs-{got[0] if got[0] == 'ok' else got[1]}"
            else:
                gd_, wd = got[1], want[1]
                diff = [k for k in wd if gd_.get(k) != wd[k]]
                stale_ok = False
                if not case["auto_reload"] and set(diff) <= {"source", "render"}:
                    # without auto reload any earlier version of that same (namespace, name) is acceptable
                    olds = store.versions.get((eff_ns, name), [])
                    if how == "ctx":
                        stale_ok = True  # rendered through tags: compared below on version markers only
                        for part in gd_["render"].split("|"):
                            if not any(part.startswith(o.split("]")[0] + "]") for o in olds):
                                stale_ok = False
                    else:
                        stale_ok = gd_.get("source") in [o.replace("{{ g }}", "{{ g }}") for o in olds]
                if stale_ok:
                    continue
                clause = "differs:" + "+".join(sorted(diff))
            v.fail(
                f"{clause}:{'ctx' if how == 'ctx' else 'direct'}",
                f"kind={kind} cap={case['cap']} auto_reload={case['auto_reload']} nskey={case['nskey']} step {step} {op}\n"
                f"   caching: {got!r:.300}\n   twin:    {want!r:.300}\n   history: {case['ops'][:step]!r:.400}",
            )
            break
        v.nontrivial = nontrivial
        v.labels.append(f"kind:{kind}")
    finally:
        if scratch:
            scratch.close()
    return v


@st.composite
def cases(draw):
    r = core.rng(draw)
    kind = r.choice(KINDS)
    ops = []
    for _ in range(r.randint(3, 12)):
        c = r.random()
        if c < 0.06:
            ops.append(["delete", r.choice([None, *NSS]) if kind in NS_KINDS else None, r.choice(NAMES)])
        elif c < 0.2:
            ops.append(["edit", r.choice([None, *NSS]) if kind in NS_KINDS else None, r.choice(NAMES), r.random() < 0.3])
        else:
            how = r.choice([None, "kw", "ctx"])
            ops.append([
                "get", r.choice(["sync", "async"]), r.choice(NAMES + ["missing"] if r.random() < 0.1 else NAMES),
                how, r.choice(NSS) if how else None, r.choice([None, None, "G1", "G2"]),
            ])
    return {"kind": kind, "env_globals": r.random() < 0.4, "cap": r.randint(1, 4), "auto_reload": r.random() < 0.7, "nskey": r.random() < 0.7 or kind in NS_KINDS, "ops": ops}


def campaign(ctx: core.Ctx, tier: str, shard: int, nshards: int) -> None:
    total = 3000 if tier == "quick" else 40000
    core.drive(cases(), ctx.run, n=max(1, total // nshards), seed=core.sub_seed(ctx.seed, shard))


def finish_kwargs(ctx: core.Ctx, tier: str) -> dict:
    return {
        "rule": (
            "Request histories of 3-12 operations over 3 names (one with a directory component), 2 namespaces and a "
            "missing name: get_template / get_template_async directly (namespace by keyword or absent, request "
            "globals absent or present) or through include+render tags (namespace from the render context), and "
            "source edits (file edits set mtime explicitly: forward, or - 30% - back to before any earlier version). One of the "
            "three namespaces is the integer 0. Loaders: CachingDictLoader, CachingChoiceLoader, "
            "CachingFileSystemLoader, namespace-aware dict and file-system loaders composed with "
            "CachingLoaderMixin as documented, and CachingChoiceLoader over two namespace-aware dict loaders; capacity 1-4, auto_reload on/off, namespace_key set/unset. After "
            "every request the result (name, source, globals, rendered text, or error class) must equal the "
            "non-caching twin's on the same store; with auto_reload off any earlier version of that same "
            "(namespace, name) is accepted. Non-trivial = the history mixes sync and async for a name, or uses a "
            "name under two namespaces, or requests after an edit."
        ),
        "assumptions": ["the twin is the same loader class without CachingLoaderMixin, reading the same store"],
    }
