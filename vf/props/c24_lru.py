"""C24 - LRU caches behave as bounded least-recently-used maps.

(a) exhaustive op histories against a list model; (b) long random histories;
(c) owned schedules: listings split into begin/next steps with other ops
interleaved (what a pre-empted thread would see, but deterministic);
(d) real threads under a tiny switch interval (one-sided, probabilistic).
"""

from __future__ import annotations

import itertools
import random
import sys
import threading

from hypothesis import strategies as st

from .. import core
from ..core import Verdict
from ..ref.lru import ModelLRU

PID = "C24"
SHARDS = {"quick": 8, "thorough": 16}

KEYS3 = ["a", "b", "c"]
KEYED = ["set", "setnone", "get", "getitem", "del", "contains"]
UNKEYED = ["len", "keys", "values", "items", "iter"]
LISTINGS = ["keys", "values", "items", "iter"]


def _classes():
    from liquid.utils.lru_cache import LRUCache
    from liquid.utils.lru_cache import ThreadSafeLRUCache

    return {"plain": LRUCache, "ts": ThreadSafeLRUCache}


def _apply_real(cache, op, key, step):
    """Apply one op to the real cache, returning a comparable outcome."""
    try:
        if op == "set":
            cache[key] = step
            return ("ok", None)
        if op == "setnone":
            cache[key] = None  # None is a value like any other
            return ("ok", None)
        if op == "get":
            return ("ok", cache.get(key, "DEFAULT"))
        if op == "getitem":
            return ("ok", cache[key])
        if op == "del":
            del cache[key]
            return ("ok", None)
        if op == "contains":
            return ("ok", key in cache)
        if op == "len":
            return ("ok", len(cache))
        if op == "keys":
            return ("ok", list(cache.keys()))
        if op == "values":
            return ("ok", list(cache.values()))
        if op == "items":
            return ("ok", [tuple(p) for p in cache.items()])
        if op == "iter":
            return ("ok", list(iter(cache)))
    except KeyError:
        return ("KeyError", None)
    except Exception as err:  # noqa: BLE001 - any other exception is an outcome to compare
        return (type(err).__name__, str(err)[:80])
    raise core.HarnessError(f"unknown op {op}")


def _apply_model(model: ModelLRU, op, key, step):
    try:
        if op == "set":
            model.set(key, step)
            return ("ok", None)
        if op == "setnone":
            model.set(key, None)
            return ("ok", None)
        if op == "get":
            return ("ok", model.get(key, "DEFAULT"))
        if op == "getitem":
            return ("ok", model.getitem(key))
        if op == "del":
            model.delete(key)
            return ("ok", None)
        if op == "contains":
            return ("ok", model.contains(key))
        if op == "len":
            return ("ok", len(model))
        if op in ("keys", "iter"):
            return ("ok", model.keys())
        if op == "values":
            return ("ok", model.values())
        if op == "items":
            return ("ok", model.pairs())
    except KeyError:
        return ("KeyError", None)
    raise core.HarnessError(f"unknown op {op}")


class SelfDeadlock(RuntimeError):
    """The thread that holds the (non re-entrant) lock tries to take it again: it would wait for itself for ever."""


class GuardLock:
    """Stands in for a cache's lock and turns a self-deadlock into an exception instead of a hang."""

    def __init__(self) -> None:
        self._lock = threading.Lock()
        self.owner = None

    def acquire(self, *a, **kw):
        me = threading.get_ident()
        if self.owner == me:
            raise SelfDeadlock("the lock is taken again by the thread that already holds it")
        got = self._lock.acquire(*a, **kw)
        if got:
            self.owner = me
        return got

    def release(self) -> None:
        self.owner = None
        self._lock.release()

    def locked(self) -> bool:
        return self._lock.locked()

    def __enter__(self):
        self.acquire()
        return self

    def __exit__(self, *exc) -> None:
        self.release()


def _guarded(cache):
    """Give a thread-safe cache a lock that reports a self-deadlock instead of hanging the check."""
    if isinstance(getattr(cache, "_lock", None), type(threading.Lock())):
        cache._lock = GuardLock()  # noqa: SLF001
    return cache


def _eval_seq(case, v: Verdict) -> None:
    cls = _classes()[case["cls"]]
    cap = case["cap"]
    cache = cls(cap)
    if case["cls"] == "ts":
        _guarded(cache)
    model = ModelLRU(cap)
    for step, (op, key) in enumerate(case["ops"]):
        r = _apply_real(cache, op, key, step)
        m = _apply_model(model, op, key, step)
        if r != m:
            v.fail(f"seq:{op}:{r[0] if r[0] != 'ok' else 'value'}", f"step {step} {op}({key}) real={r} model={m}")
            return
        n = len(cache)
        if n > cap:
            v.fail("seq:capacity", f"len {n} > capacity {cap} after step {step}")
            return
        if n != len(model):
            v.fail("seq:len", f"len {n} != model {len(model)} after step {step}")
            return
    final = (list(cache.keys()), list(cache.values()), [tuple(p) for p in cache.items()], list(iter(cache)))
    want = (model.keys(), model.values(), model.pairs(), model.keys())
    if final != want:
        v.fail("seq:listing", f"final listing real={final} model={want}")
    v.nontrivial = model.last_eviction_differs_from_fifo
    if model.evictions:
        v.labels.append("eviction")
    if v.nontrivial:
        v.labels.append("eviction-after-recency-change")


def _eval_sched(case, v: Verdict) -> None:
    """Owned schedule over the thread-safe cache.

    ops: ["set"|"get"|"del", key] mutate/lookup, ["begin", kind] starts a
    listing (as thread A would by calling cache.keys()), ["next"] pulls one
    item from the open listing, ["end"] drains it.  Everything between begin
    and end is what a second thread could do while A is pre-empted.
    """
    cls = _classes()["ts"]
    cap = case["cap"]
    cache = _guarded(cls(cap))
    model = ModelLRU(cap)
    open_it = None
    kind = None
    got: list = []
    snapshots: list = []
    mutated_during = False

    def model_listing(k):
        if k in ("keys", "iter"):
            return model.keys()
        if k == "values":
            return model.values()
        return model.pairs()

    def close():
        nonlocal open_it, got, snapshots, kind
        if open_it is None:
            return True
        try:
            for x in open_it:
                got.append(tuple(x) if kind == "items" else x)
        except Exception as err:  # noqa: BLE001
            v.fail(f"sched:{type(err).__name__}", f"draining {kind} listing raised {err!r}")
            open_it = None
            return False
        if got not in snapshots:
            v.fail(
                "sched:listing-not-a-snapshot",
                f"{kind} listing {got} equals no cache state between begin and end {snapshots}",
            )
            open_it = None
            return False
        open_it = None
        return True

    for step, op in enumerate(case["ops"]):
        name = op[0]
        try:
            if name == "begin":
                if not close():
                    return
                kind = op[1]
                got = []
                snapshots = [model_listing(kind)]
                open_it = iter(cache) if kind == "iter" else getattr(cache, kind)()
            elif name == "next":
                if open_it is not None:
                    try:
                        x = next(open_it)
                        got.append(tuple(x) if kind == "items" else x)
                    except StopIteration:
                        if not close():
                            return
            elif name == "end":
                if not close():
                    return
            else:
                key = op[1]
                r = _apply_real(cache, name, key, step)
                m = _apply_model(model, name, key, step)
                if r != m:
                    v.fail(f"sched:{name}", f"step {step} real={r} model={m}")
                    return
                if open_it is not None:
                    snap = model_listing(kind)
                    if snap != snapshots[-1]:
                        mutated_during = True
                    snapshots.append(snap)
        except Exception as err:  # noqa: BLE001
            v.fail(f"sched:{type(err).__name__}", f"step {step} {op} raised {err!r}")
            return
    if not close():
        return
    v.nontrivial = mutated_during
    if mutated_during:
        v.labels.append("mutation-during-listing")


def _eval_threads(case, v: Verdict) -> None:
    cls = _classes()["ts"]
    cap = case["cap"]
    cache = _guarded(cls(cap))
    nthreads = case["threads"]
    nops = case["nops"]
    keys = [f"k{i}" for i in range(case["nkeys"])]
    errors: list = []
    written: set = set()
    wlock = threading.Lock()
    start = threading.Barrier(nthreads)

    def worker(tid: int) -> None:
        rng = random.Random(case["seed"] * 1000 + tid)
        local_written = set()
        try:
            start.wait()
            for i in range(nops):
                r = rng.random()
                k = rng.choice(keys)
                if r < 0.35:
                    val = (tid, i)
                    local_written.add((k, val))
                    cache[k] = val
                elif r < 0.55:
                    cache.get(k)
                elif r < 0.62:
                    try:
                        del cache[k]
                    except KeyError:
                        pass
                elif r < 0.70:
                    _ = k in cache
                elif r < 0.78:
                    lst = list(cache.keys())
                    if len(lst) > cap or len(set(lst)) != len(lst):
                        errors.append(("listing", f"keys listing {lst} cap {cap}"))
                elif r < 0.85:
                    list(cache.values())
                elif r < 0.92:
                    lst = list(cache.items())
                    if len(lst) > cap:
                        errors.append(("listing", f"items listing longer than capacity {cap}"))
                elif r < 0.96:
                    list(iter(cache))
                else:
                    n = len(cache)
                    if n > cap:
                        errors.append(("capacity", f"len {n} > {cap}"))
        except Exception as err:  # noqa: BLE001
            errors.append((type(err).__name__, f"thread {tid}: {err!r}"))
        with wlock:
            written.update(local_written)

    old = sys.getswitchinterval()
    sys.setswitchinterval(1e-6)
    try:
        ts = [threading.Thread(target=worker, args=(t,)) for t in range(nthreads)]
        for t in ts:
            t.start()
        for t in ts:
            t.join()
    finally:
        sys.setswitchinterval(old)
    final = [tuple(p) for p in cache.items()]
    if len(final) > cap:
        errors.append(("capacity", f"final size {len(final)} > {cap}"))
    if len({k for k, _ in final}) != len(final):
        errors.append(("duplicate", f"duplicate keys in final contents {final}"))
    for k, val in final:
        if (k, tuple(val)) not in written:
            errors.append(("invented", f"final pair {(k, val)} was never written"))
    for kind, msg in errors[:3]:
        v.fail(f"threads:{kind}", msg)
    v.nontrivial = True
    v.labels.append(f"threads-{nthreads}")


class HookLock:
    """A lock that runs an injected operation right after its k-th release:
    the pre-emption point between two critical sections of one cache method."""

    def __init__(self) -> None:
        self._lock = threading.Lock()
        self.releases = 0
        self.at = -1
        self.hook = None
        self.owner = None

    def acquire(self, *a, **kw):
        me = threading.get_ident()
        if self.owner == me:
            raise SelfDeadlock("the lock is taken again by the thread that already holds it")
        got = self._lock.acquire(*a, **kw)
        if got:
            self.owner = me
        return got

    def release(self) -> None:
        self.owner = None
        self._lock.release()
        if self.hook is not None:
            self.releases += 1
            if self.releases == self.at:
                hook, self.hook = self.hook, None
                hook()

    def __enter__(self):
        self.acquire()
        return self

    def __exit__(self, *exc) -> None:
        self.release()


def _eval_lockhook(case, v: Verdict) -> None:
    """Another thread's operation is run at the k-th lock release inside one
    listing call of the thread-safe cache; the listing must equal the cache's
    contents either before or after that operation (a single atomic snapshot)."""
    cls = _classes()["ts"]
    cap = case["cap"]
    cache = cls(cap)
    if not hasattr(cache, "_lock"):
        v.labels.append("lockhook:no-_lock-attribute")
        return
    model = ModelLRU(cap)
    for step, (op, key) in enumerate(case["pre"]):
        _apply_real(cache, op, key, step)
        _apply_model(model, op, key, step)
    kind = case["call"]

    def listing():
        if kind in ("keys", "iter"):
            return model.keys()
        return model.values() if kind == "values" else model.pairs()

    before = listing()
    lock = HookLock()
    cache._lock = lock
    iop, ikey = case["inject"]

    def injected() -> None:
        _apply_real(cache, iop, ikey, 99)

    lock.hook = injected
    lock.at = case["k"]
    try:
        it = iter(cache) if kind == "iter" else getattr(cache, kind)()
        got = [tuple(x) if kind == "items" else x for x in it]
    except Exception as err:  # noqa: BLE001
        v.fail(f"lockhook:{type(err).__name__}", f"{kind}() with {case['inject']} run at lock release {case['k']}: {err!r}")
        return
    fired = lock.hook is None
    lock.hook = None
    _apply_model(model, iop, ikey, 99)
    after = listing()
    if fired and got not in (before, after):
        v.fail(
            f"lockhook:torn-listing:{kind}",
            f"pre={case['pre']} {kind}() with {case['inject']} injected at lock release {case['k']}: got {got}, "
            f"contents before {before}, after {after}",
        )
    elif not fired and got != before:
        v.fail(f"lockhook:listing:{kind}", f"{kind}() -> {got}, expected {before}")
    v.nontrivial = fired and before != after
    if fired:
        v.labels.append("lockhook:injected")


def _hooked_dict_class():
    """An OrderedDict that calls ``hook()`` before its n-th access: the pre-emption points inside one cache method."""
    from collections import OrderedDict

    class HookedDict(OrderedDict):
        accesses = 0
        at = -1
        hook = None

        def _tick(self) -> None:
            if self.hook is not None:
                self.accesses += 1
                if self.accesses == self.at:
                    hook, self.hook = self.hook, None
                    hook()

    def wrap(name):
        orig = getattr(OrderedDict, name)

        def method(self, *a, **kw):
            self._tick()
            return orig(self, *a, **kw)

        method.__name__ = name
        return method

    for name in ("__getitem__", "__setitem__", "__delitem__", "__contains__", "__len__", "__iter__", "__reversed__", "get", "pop",
                 "popitem", "move_to_end", "keys", "values", "items", "setdefault", "update", "clear"):
        setattr(HookedDict, name, wrap(name))
    return HookedDict


_HOOKED: dict = {}


def _eval_accesshook(case, v: Verdict) -> None:
    """Another thread's whole operation runs just before the n-th access that one call of the thread-safe cache makes to
    its underlying dict - if the cache's lock is free at that moment (if it is held, no other thread could get in there).
    The two operations together must then look like one of their two sequential orders (results and final contents)."""
    cls = _classes()["ts"]
    cap = case["cap"]
    cache = cls(cap)
    from collections import OrderedDict

    slots = [k for k, val in vars(cache).items() if isinstance(val, OrderedDict)]
    locks = [k for k, val in vars(cache).items() if hasattr(val, "acquire") and hasattr(val, "release")]
    if len(slots) != 1 or len(locks) != 1:
        v.labels.append("accesshook:unrecognised-layout")
        return
    model = ModelLRU(cap)
    for step, (op, key) in enumerate(case["pre"]):
        _apply_real(cache, op, key, step)
        _apply_model(model, op, key, step)
    if "cls" not in _HOOKED:
        _HOOKED["cls"] = _hooked_dict_class()
    hd = _HOOKED["cls"](getattr(cache, slots[0]))
    setattr(cache, slots[0], hd)
    lock = HookLock()
    setattr(cache, locks[0], lock)
    (vop, vkey), (iop, ikey) = case["victim"], case["inject"]
    box: dict = {}

    def injected() -> None:
        if lock.owner is not None:
            box["excluded"] = True  # the victim holds the lock here: mutual exclusion works at this point
            return
        box["result"] = _apply_real(cache, iop, ikey, 99)

    if case.get("point") == "release":
        # ... or right after the n-th release of the lock inside the call (between two critical sections of one method)
        lock.hook = injected
        lock.at = case["n"]
    else:
        hd.hook = injected
        hd.at = case["n"]
    got_v = _apply_real(cache, vop, vkey, 50)
    hd.hook = None
    lock.hook = None
    if "result" not in box:
        v.labels.append("accesshook:" + ("excluded-by-lock" if box.get("excluded") else "no-such-access"))
        return
    got_i = box["result"]
    final = _apply_real(cache, "items", None, 0)
    # the two sequential orders on the reference model
    accepted = []
    for order in ("victim-first", "injected-first"):
        m = ModelLRU(cap)
        for step, (op, key) in enumerate(case["pre"]):
            _apply_model(m, op, key, step)
        if order == "victim-first":
            rv = _apply_model(m, vop, vkey, 50)
            ri = _apply_model(m, iop, ikey, 99)
        else:
            ri = _apply_model(m, iop, ikey, 99)
            rv = _apply_model(m, vop, vkey, 50)
        accepted.append((rv, ri, ("ok", m.pairs())))
    norm = lambda o: (o[0], [tuple(x) if isinstance(x, (list, tuple)) else x for x in o[1]] if isinstance(o[1], list) else o[1])  # noqa: E731
    mine = (norm(got_v), norm(got_i), norm(final))
    if mine not in [tuple(norm(x) for x in a) for a in accepted]:
        v.fail(
            f"accesshook:not-atomic:{vop}",
            f"pre={case['pre']} cap={cap}: {vop}({vkey!r}) pre-empted {'after its lock release' if case.get('point') == 'release' else 'before its dict access'} #{case['n']} (lock free) by {iop}({ikey!r}): "
            f"victim -> {got_v}, injected -> {got_i}, contents {final[1]}; sequential orders give {accepted}",
        )
    v.nontrivial = True
    v.labels.append("accesshook:injected")


def evaluate(case) -> Verdict:
    v = Verdict()
    kind = case.get("kind", "seq")
    if kind == "accesshook":
        _eval_accesshook(case, v)
        return v
    if kind == "seq":
        _eval_seq(case, v)
    elif kind == "sched":
        _eval_sched(case, v)
    elif kind == "threads":
        _eval_threads(case, v)
    elif kind == "lockhook":
        _eval_lockhook(case, v)
    else:
        raise core.HarnessError(f"unknown case kind {kind}")
    return v


# ---------------------------------------------------------------------------


def _all_ops():
    return [(op, k) for op in KEYED for k in KEYS3] + [(op, None) for op in UNKEYED]


def _exhaustive(ctx: core.Ctx, maxlen: int, shard: int, nshards: int) -> None:
    ops = _all_ops()
    combos = [(cls, cap) for cls in ("plain", "ts") for cap in (1, 2, 3, 4)]
    idx = 0
    evals = 0
    nontriv = 0
    sample_budget = 3
    for length in range(1, maxlen + 1):
        for seq in itertools.product(ops, repeat=length):
            idx += 1
            if idx % nshards != shard:
                continue
            for cls, cap in combos:
                case = {"kind": "seq", "cls": cls, "cap": cap, "ops": [list(o) for o in seq]}
                v = Verdict()
                _eval_seq(case, v)
                evals += 1
                if v.failures:
                    ctx.record(case, v)
                    ctx.evaluations -= 1
                elif v.nontrivial:
                    nontriv += 1
                    if sample_budget and length == maxlen:
                        sample_budget -= 1
                        ctx.samples.append(case)
    ctx.evaluations += evals
    # Enumerated histories are distinct by construction: count, do not hash.
    ctx.bulk_nontrivial += nontriv
    ctx.extra["enumerated_histories"] = ctx.extra.get("enumerated_histories", 0) + evals


@st.composite
def _long_seq(draw):
    keys = [f"k{i}" for i in range(8)]
    ops = draw(
        st.lists(
            st.one_of(
                st.tuples(st.sampled_from(KEYED), st.sampled_from(keys)),
                st.tuples(st.sampled_from(["set", "set", "get", "getitem"]), st.sampled_from(keys[:5])),
                st.tuples(st.sampled_from(UNKEYED), st.none()),
            ),
            min_size=5,
            max_size=60,
        )
    )
    return {
        "kind": "seq",
        "cls": draw(st.sampled_from(["plain", "ts"])),
        "cap": draw(st.integers(1, 6)),
        "ops": [list(o) for o in ops],
    }


@st.composite
def _sched(draw):
    keys = ["a", "b", "c", "d"]
    n = draw(st.integers(3, 24))
    ops = []
    for _ in range(n):
        r = draw(st.integers(0, 9))
        if r <= 2:
            ops.append(["set", draw(st.sampled_from(keys))])
        elif r == 3:
            ops.append(["get", draw(st.sampled_from(keys))])
        elif r == 4:
            ops.append(["del", draw(st.sampled_from(keys))])
        elif r == 5:
            ops.append(["begin", draw(st.sampled_from(LISTINGS))])
        elif r <= 8:
            ops.append(["next"])
        else:
            ops.append(["end"])
    return {"kind": "sched", "cap": draw(st.integers(1, 4)), "ops": ops}


def _sched_exhaustive(ctx: core.Ctx, shard: int, nshards: int, maxmid: int) -> None:
    """All schedules: prefix of sets, begin, <=maxmid interleaved ops, drain."""
    keys = ["a", "b", "c"]
    mids = [["set", k] for k in keys] + [["get", k] for k in keys] + [["del", k] for k in keys] + [["next"]]
    prefixes = [[], [["set", "a"]], [["set", "a"], ["set", "b"]], [["set", "a"], ["set", "b"], ["set", "c"]]]
    i = 0
    for cap in (1, 2, 3):
        for pre in prefixes:
            for kind in LISTINGS:
                for n in range(0, maxmid + 1):
                    for mid in itertools.product(mids, repeat=n):
                        i += 1
                        if i % nshards != shard:
                            continue
                        case = {
                            "kind": "sched",
                            "cap": cap,
                            "ops": [list(o) for o in pre] + [["begin", kind]] + [list(o) for o in mid] + [["end"]],
                        }
                        ctx.run(case)


def _lockhook_exhaustive(ctx: core.Ctx, shard: int, nshards: int) -> None:
    keys = ["a", "b", "c", "d"]
    pres = [[], [["set", "a"]], [["set", "a"], ["set", "b"]], [["set", "a"], ["set", "b"], ["set", "c"]],
            [["set", "a"], ["set", "b"], ["get", "a"]]]
    injects = [["set", k] for k in keys] + [["del", k] for k in keys[:3]] + [["get", k] for k in keys[:3]]
    i = 0
    for cap in (1, 2, 3):
        for pre in pres:
            for call in LISTINGS:
                for inj in injects:
                    for k in (1, 2, 3):
                        i += 1
                        if i % nshards == shard:
                            ctx.run({"kind": "lockhook", "cap": cap, "pre": pre, "call": call, "inject": inj, "k": k})


def _accesshook_exhaustive(ctx: core.Ctx, shard: int, nshards: int) -> None:
    keys = ["a", "b", "c"]
    pres = [[], [["set", "a"]], [["set", "a"], ["set", "b"]], [["set", "a"], ["set", "b"], ["set", "c"]], [["set", "a"], ["set", "b"], ["get", "a"]]]
    victims = [[op, k] for op in ("get", "getitem", "set", "del", "contains") for k in keys[:2]] + [[op, None] for op in ("len", "keys", "values", "items", "iter")]
    injects = [["set", k] for k in ["a", "d"]] + [["del", k] for k in keys[:2]] + [["get", k] for k in keys[:2]]
    i = 0
    for cap in (1, 2, 3):
        for pre in pres:
            for victim in victims:
                for inj in injects:
                    for n in (1, 2, 3, 4):
                        i += 1
                        if i % nshards == shard:
                            ctx.run({"kind": "accesshook", "cap": cap, "pre": pre, "victim": victim, "inject": inj, "n": n}, enumerated=True)
                            if n <= 2:
                                ctx.run({"kind": "accesshook", "cap": cap, "pre": pre, "victim": victim, "inject": inj, "n": n, "point": "release"}, enumerated=True)


def campaign(ctx: core.Ctx, tier: str, shard: int, nshards: int) -> None:
    quick = tier == "quick"
    _exhaustive(ctx, 4 if quick else 5, shard, nshards)
    _lockhook_exhaustive(ctx, shard, nshards)
    _accesshook_exhaustive(ctx, shard, nshards)
    _sched_exhaustive(ctx, shard, nshards, 2 if quick else 3)
    seed = core.sub_seed(ctx.seed, shard)
    core.drive(_long_seq(), ctx.run, n=(400 if quick else 6000), seed=seed)
    core.drive(_sched(), ctx.run, n=(400 if quick else 6000), seed=seed + 1)
    if shard == 0:
        # Real threads: one-sided and probabilistic; exceptions are never permitted.
        plan = [(2, 400), (4, 300), (8, 200), (16, 100)] if quick else [(2, 3000), (4, 2000), (8, 1500), (16, 1000)]
        for rep in range(2 if quick else 6):
            for nthreads, nops in plan:
                ctx.run(
                    {
                        "kind": "threads",
                        "cap": 1 + (rep + nthreads) % 4,
                        "threads": nthreads,
                        "nops": nops,
                        "nkeys": 6,
                        "seed": ctx.seed * 100 + rep,
                    }
                )


def finish_kwargs(ctx: core.Ctx, tier: str) -> dict:
    maxlen = 4 if tier == "quick" else 5
    return {
        "rule": (
            f"(a) every op sequence of length <= {maxlen} over 20 ops (set/get/[]/del/in x 3 keys, len, "
            "keys, values, items, iter; stored values include None), capacities 1-4, LRUCache and ThreadSafeLRUCache, compared step by "
            "step with a list model; non-trivial = an eviction whose victim differs from the oldest-inserted "
            "key (recency was changed by a lookup or re-insert). (b) random histories of 5-60 ops over 8 keys. "
            "(c) owned schedules on ThreadSafeLRUCache: a listing is begun, other ops run, the listing is "
            "drained; non-trivial = the cache changed between begin and end; and lock-release schedules: another "
            "thread's set/del/get is run at the 1st/2nd/3rd release of the cache's lock inside one listing call, and "
            "the listing must equal the contents before or after it (exhaustive over 5 pre-states x 4 listings x 10 "
            "injected ops x capacities 1-3); access schedules: another thread's whole set/del/get runs just before the 1st-4th access "
            "that one call (get, [], set, del, in, len, keys, values, items, iter) makes to the underlying dict - only if the cache's lock "
            "is free at that moment - or right after the call's 1st/2nd lock release, and the pair must look like one of its two "
            "sequential orders: results and final contents (exhaustive over 5 pre-states x 15 calls x 6 injected ops x capacities 1-3). "
            "(d) 2-16 real threads with "
            "switch interval 1e-6; any exception, over-capacity or invented pair fails. The cache's "
            "lock is replaced by one that raises when its holder takes it again (a self-deadlock is a failure, not a hang)."
        ),
        "exhaustive": True,
        "assumptions": [
            "real-thread part (d) cannot force a schedule; the deterministic decider for 'while listed' is (c)",
            "pre-emption inside one locked method is not modelled: each is a single critical section",
        ],
    }
