"""C25 - built-in filters honour their documented contracts.

Each contract is an executable oracle (reference implementation or algebraic
law) over typed pools; filters are applied through templates with variable
operands and results are read back exactly through the `json` filter.
"""

from __future__ import annotations

import itertools
import json
import math
from decimal import Decimal
from fractions import Fraction

from hypothesis import strategies as st

from .. import core
from .. import envs
from .. import outcome as oc
from ..core import Verdict

PID = "C25"
SHARDS = {"quick": 8, "thorough": 16}
CFG = {"mode": "strict", "extra": True, "twice": False}

ALPHA = ["a", "B", " ", "\n", ","]
INTS = [-7, -2, -1, 0, 1, 2, 3, 10, 10**30]
FLOATS = [-2.5, -0.5, 0.0, 0.5, 1.5, 2.25, 3.0, 0.1, 1e16]
NUMSTR = ["3", "-2", "2.5", "abc", "", " 4", "1e2"]
ELEMS = [1, 2, "a", "B", None]
DICTS = [{"k": 1}, {"k": 2}, {"k": None}, {"j": 1}, {"k": "a"}, {"k": False}]
UNDEF = "__undef__"

_ENV = None


def env():
    global _ENV  # noqa: PLW0603
    if _ENV is None:
        _ENV = envs.make_env(CFG)
    return _ENV


def render(src: str, data: dict):
    d = {k: v for k, v in data.items() if v != UNDEF}
    return oc.outcome_of(lambda: env().from_string(src).render(**d))


def jrender(expr: str, data: dict):
    """Render `expr | json` and return ('ok', value) or the failure outcome."""
    o = render("{{ " + expr + " | json }}", data)
    if o[0] != "ok":
        return o
    try:
        return ("ok", json.loads(o[1]))
    except ValueError:
        return ("badjson", o[1])


def num_of(x):
    """The number the math filters are documented to see for operand x."""
    if isinstance(x, bool):
        return 0
    if isinstance(x, (int, float)):
        return x
    if isinstance(x, str):
        try:
            return int(x)
        except ValueError:
            pass
        try:
            return float(x)
        except ValueError:
            return 0
    return 0


def dec(x) -> Fraction:
    """Exact value of the decimal representation of x (what 'decimal arithmetic' sees)."""
    return Fraction(str(x))


def close(a, b) -> bool:
    if isinstance(a, bool) or isinstance(b, bool):
        return a is b
    if isinstance(a, int) and isinstance(b, int):
        return a == b
    if isinstance(a, (int, float)) and isinstance(b, (int, float)):
        if a == b:
            return True
        return abs(a - b) <= 1e-9 * max(1.0, abs(a), abs(b))
    return a == b


# ---------------------------------------------------------------------------
# contracts: each returns a list of (bucket, detail) failures


def c_size(p):
    x = p["x"]
    o = jrender("x | size", {"x": x})
    if x == UNDEF or x is None or isinstance(x, (bool, int, float)):
        want = 0
    else:
        want = len(x)
    if o != ("ok", want):
        return [(f"size:{type(x).__name__}", f"{x!r} | size -> {oc.short(o)}, expected {want}")]
    return []


STR_OPS = {
    "upcase": str.upper, "downcase": str.lower, "capitalize": str.capitalize, "strip": str.strip,
    "lstrip": str.lstrip, "rstrip": str.rstrip,
    "strip_newlines": lambda s: s.replace("\r\n", "").replace("\n", ""),
    "squish": lambda s: " ".join(s.split()),
}


def c_strop(p):
    f, s = p["f"], p["x"]
    o = jrender(f"x | {f}", {"x": s})
    want = STR_OPS[f](s if isinstance(s, str) else str(s))
    if o != ("ok", want):
        return [(f"strop:{f}", f"{s!r} | {f} -> {oc.short(o)}, expected {want!r}")]
    return []


def c_split_join(p):
    s, sep = p["x"], p["sep"]
    o = jrender("x | split: sep | join: sep", {"x": s, "sep": sep})
    if o != ("ok", s):
        return [("split-join", f"{s!r} | split: {sep!r} | join: {sep!r} -> {oc.short(o)}")]
    o2 = jrender("x | split: sep", {"x": s, "sep": sep})
    if o2[0] != "ok" or not isinstance(o2[1], list) or any(not isinstance(e, str) for e in o2[1]):
        return [("split-type", f"{s!r} | split: {sep!r} -> {oc.short(o2)}")]
    return []


def _perm(a, b) -> bool:
    a, b = list(a), list(b)
    for x in a:
        for i, y in enumerate(b):
            if type(x) is type(y) and x == y:
                del b[i]
                break
        else:
            return False
    return not b


def c_array(p):
    f, xs = p["f"], p["x"]
    arg = p.get("arg")
    expr = f"x | {f}" + (": a" if arg is not None else "") + (", b" if p.get("arg2") is not None else "")
    data = {"x": xs, "a": arg, "b": p.get("arg2")}
    if f == "map":
        # missing properties map to a nil-like object the json filter cannot
        # serialise: read the result back element by element instead
        readout = "{% assign r = " + expr + " %}[{% for e in r %}{% unless forloop.first %},{% endunless %}{% if e == nil %}null{% else %}{{ e | json }}{% endif %}{% endfor %}]"
    else:
        readout = "{{ " + expr + " | json }}"
    before = json.loads(json.dumps(xs))  # (taken before the render: the case's own list is what a filter working in place would change)
    o = render(readout + "~{{ x | json }}", data)
    if xs != before:
        return [(f"array:{f}:input-mutated", f"{expr}: the list passed as render data was {before!r} and is {xs!r} after the render")]
    fails = []
    if o[0] != "ok":
        exp_err = p.get("may_error")
        if o[0] == "liquid" and exp_err:
            return []
        return [(f"array:{f}:raises", f"{expr} with {data!r:.120} -> {oc.short(o)}")]
    res_s, _, orig_s = o[1].rpartition("~")
    try:
        res, orig = json.loads(res_s), json.loads(orig_s)
    except ValueError:
        return [(f"array:{f}:badjson", o[1][:200])]
    if orig != before:
        fails.append((f"array:{f}:input-mutated", f"{expr}: input {before!r} became {orig!r}"))
    if not isinstance(res, list):
        return [*fails, (f"array:{f}:not-a-list", f"{expr} with {xs!r} -> {res!r}")]

    def bad(msg):
        fails.append((f"array:{f}", f"{expr} x={xs!r} a={arg!r} b={p.get('arg2')!r} -> {res!r}: {msg}"))

    if f == "reverse":
        if res != xs[::-1]:
            bad("not the reversed input")
    elif f == "sort":
        if not _perm(res, xs):
            bad("not a permutation")
        elif any(not (a <= b) for a, b in zip(res, res[1:])):
            bad("not ascending")
    elif f == "sort_natural":
        if not _perm(res, xs):
            bad("not a permutation")
        elif any(str(a).lower() > str(b).lower() for a, b in zip(res, res[1:])):
            bad("not ascending case-insensitively")
    elif f == "uniq":
        want = []
        for e in xs:
            if not any(type(e) is type(w) and e == w for w in want):
                want.append(e)
        if res != want or [type(a) for a in res] != [type(a) for a in want]:
            bad(f"expected first occurrences {want!r}")
    elif f == "compact":
        want = [e for e in xs if e is not None]
        if res != want:
            bad(f"expected {want!r}")
    elif f == "concat":
        if res != xs + arg:
            bad(f"expected {xs + arg!r}")
    elif f == "map":
        want = [(e.get(arg) if isinstance(e, dict) else None) for e in xs]
        if res != want:
            bad(f"expected {want!r}")
    elif f in ("where", "reject"):
        val = p.get("arg2")

        def match(e):
            got = e.get(arg) if isinstance(e, dict) else None
            if val is None:
                return got is not None and got is not False
            return type(got) is type(val) and got == val

        want = [e for e in xs if match(e)] if f == "where" else [e for e in xs if not match(e)]
        if res != want:
            bad(f"expected {want!r}")
    return fails


def c_slice(p):
    x, start, length = p["x"], p["start"], p.get("len")
    expr = "x | slice: s" + (", l" if length is not None else "")
    o = jrender(expr, {"x": x, "s": start, "l": length})
    ln = 1 if length is None else length
    n = len(x)
    # documented: negative start counts from the end; length items from there
    st_ = start + n if start < 0 else start
    if st_ < 0:
        return []  # start before the beginning: documentation is silent
    want = x[st_ : st_ + max(ln, 0)] if ln >= 0 else None
    if want is None:
        return []  # negative length: documentation is silent
    if o != ("ok", want):
        return [(f"slice:{type(x).__name__}", f"{x!r} | slice: {start}, {length} -> {oc.short(o)}, expected {want!r}")]
    return []


def c_first_last(p):
    x = p["x"]
    fails = []
    for f, want in (("first", x[0] if x else None), ("last", x[-1] if x else None)):
        o = jrender(f"x | {f}", {"x": x})
        if o != ("ok", want):
            fails.append((f"{f}", f"{x!r} | {f} -> {oc.short(o)}, expected {want!r}"))
    return fails


def c_truncate(p):
    s, n, end = p["x"], p["n"], p.get("end")
    expr = "x | truncate: n" + (", e" if end is not None else "")
    o = jrender(expr, {"x": s, "n": n, "e": end})
    ell = "..." if end is None else end
    if o[0] != "ok" or not isinstance(o[1], str):
        return [("truncate:raises", f"{s!r} | truncate: {n}, {end!r} -> {oc.short(o)}")]
    r = o[1]
    if len(s) <= n:
        if r != s:
            return [("truncate:changed-short-input", f"{s!r} | truncate: {n}, {end!r} -> {r!r} (input is not longer than {n})")]
        return []
    fails = []
    if not r.endswith(ell):
        fails.append(("truncate:no-ellipsis", f"{s!r} | truncate: {n}, {end!r} -> {r!r}"))
    if len(r) > max(n, len(ell)):
        fails.append(("truncate:too-long", f"{s!r} | truncate: {n}, {end!r} -> {r!r} (len {len(r)} > max({n}, {len(ell)}))"))
    if not s.startswith(r[: len(r) - len(ell)] if ell else r):
        fails.append(("truncate:not-a-prefix", f"{s!r} | truncate: {n}, {end!r} -> {r!r}"))
    return fails


def c_truncatewords(p):
    s, n = p["x"], p["n"]
    o = jrender("x | truncatewords: n, ''", {"x": s, "n": n})
    if o[0] != "ok" or not isinstance(o[1], str):
        return [("truncatewords:raises", f"{s!r} | truncatewords: {n} -> {oc.short(o)}")]
    words_in, words_out = s.split(), o[1].split()
    keep = max(n, 1)
    if len(words_out) > keep or words_out != words_in[: len(words_out)]:
        return [("truncatewords", f"{s!r} | truncatewords: {n}, '' -> {o[1]!r}: more than {keep} words or not a prefix")]
    if len(words_in) <= keep and words_out != words_in:
        return [("truncatewords:dropped", f"{s!r} | truncatewords: {n}, '' -> {o[1]!r}: input has only {len(words_in)} words")]
    return []


def c_math(p):
    f, a, b = p["f"], p["a"], p.get("b")
    expr = f"a | {f}" + (": b" if b is not None else "")
    o = jrender(expr, {"a": a, "b": b})
    x = num_of(a)
    y = num_of(b) if b is not None else None
    if any(isinstance(v, float) and (math.isinf(v) or math.isnan(v)) for v in (x, y) if v is not None):
        return []
    both_int = isinstance(x, int) and (y is None or isinstance(y, int))
    want = None
    allow_error = False
    if f == "plus":
        want = x + y if both_int else float(dec(x) + dec(y))
    elif f == "minus":
        want = x - y if both_int else float(dec(x) - dec(y))
    elif f == "times":
        want = x * y if both_int else float(dec(x) * dec(y))
    elif f == "divided_by":
        if y == 0:
            allow_error = True
        elif both_int:
            want = x // y
        else:
            want = float(Fraction(x) / Fraction(y))
    elif f == "modulo":
        if y == 0:
            allow_error = True
        elif both_int:
            want = x % y
        elif x < 0 or y < 0:
            return []  # negative float modulo: documentation is silent
        elif abs(x) > 1e15:
            return []  # beyond the precision any decimal context is documented to have
        else:
            fx, fy = dec(x), dec(y)
            want = float(fx - fy * (fx // fy))
    elif f == "abs":
        want = abs(x)
    elif f == "ceil":
        want = math.ceil(x)
    elif f == "floor":
        want = math.floor(x)
    elif f == "round":
        nd = num_of(b) if b is not None else 0
        nd = int(nd)
        if nd < 0:
            return []
        scaled = Fraction(x) * (10**nd)
        if scaled.denominator == 2:
            return []  # exact .5 tie: rounding mode is not documented
        want = round(scaled) / Fraction(10**nd)
        want = int(want) if nd == 0 else float(want)
    elif f == "at_least":
        want = max(x, y)
    elif f == "at_most":
        want = min(x, y)
    if allow_error:
        if o[0] == "liquid":
            return []
        return [(f"math:{f}:zero", f"{a!r} | {f}: {b!r} -> {oc.short(o)}, expected a Liquid error")]
    if o[0] != "ok" or not close(o[1], want):
        return [(f"math:{f}:{'int' if both_int else 'float'}", f"{a!r} | {f}: {b!r} -> {oc.short(o)}, expected {want!r}")]
    if f in ("plus", "minus", "times", "divided_by", "modulo", "at_least", "at_most", "abs") and both_int and not isinstance(o[1], int):
        return [(f"math:{f}:type", f"{a!r} | {f}: {b!r} -> {o[1]!r} is not an integer")]
    return []


def c_default(p):
    x, d, af = p["x"], p["d"], p.get("af")
    expr = "x | default: d" + ("" if af is None else ", allow_false: af")
    o = jrender(expr, {"x": x, "d": d, "af": af})
    # allow_false only takes false out of the values that fall back
    falls_back = x == UNDEF or x is None or (x is False and af is not True) or x == "" or x == [] or x == {}
    want = d if falls_back else x
    if o != ("ok", want) or (o[0] == "ok" and type(o[1]) is not type(want)):
        return [("default" + ("" if af is None else ":allow_false"), f"{x!r} | default: {d!r}{'' if af is None else ', allow_false: ' + repr(af)} -> {oc.short(o)}, expected {want!r}")]
    return []


CONTRACTS = {
    "size": c_size, "strop": c_strop, "split_join": c_split_join, "array": c_array, "slice": c_slice,
    "first_last": c_first_last, "truncate": c_truncate, "truncatewords": c_truncatewords, "math": c_math,
    "default": c_default,
}


def _nontrivial(p) -> bool:
    c = p["c"]
    if c == "truncate":
        ell = "..." if p.get("end") is None else p["end"]
        return p["n"] < len(ell) or p["n"] == len(p["x"]) or p["n"] <= 0
    if c == "math":
        return any(isinstance(v, (float, str)) for v in (p["a"], p.get("b")))
    if c == "array":
        if p["f"] == "uniq":
            return len(p["x"]) != len({repr(e) for e in p["x"]})
        return len(p["x"]) >= 2
    if c == "slice":
        return p["start"] < 0 or p["start"] + (1 if p.get("len") is None else p["len"]) > len(p["x"])
    if c == "default":
        return p["x"] in (UNDEF, None, False, "", [], {}, 0, 0.0)
    if c == "split_join":
        return p["sep"] in p["x"]
    if c == "size":
        return not isinstance(p["x"], str)
    if c == "truncatewords":
        return p["n"] <= 1 or p["n"] >= len(p["x"].split())
    return True


def evaluate(case) -> Verdict:
    v = Verdict()
    fn = CONTRACTS[case["c"]]
    for bucket, detail in fn(case):
        v.fail(bucket, detail)
    v.nontrivial = _nontrivial(case)
    v.labels.append(case["c"] + (":" + case["f"] if "f" in case else ""))
    return v


# ---------------------------------------------------------------------------


def strings(maxlen: int):
    for n in range(maxlen + 1):
        for t in itertools.product(ALPHA, repeat=n):
            yield "".join(t)


def lists(pool, maxlen: int):
    for n in range(maxlen + 1):
        for t in itertools.product(pool, repeat=n):
            yield list(t)


def all_cases(tier: str):
    quick = tier == "quick"
    sl, ll = (3, 3) if quick else (4, 4)
    for x in [*strings(2), [], [1], [1, 2, 3], {}, {"a": 1, "b": 2}, None, UNDEF, 0, 5, 1.5, True, False]:
        yield {"c": "size", "x": x}
    for f in STR_OPS:
        for s in strings(sl):
            yield {"c": "strop", "f": f, "x": s}
        for x in INTS[:4] + FLOATS[:3]:
            yield {"c": "strop", "f": f, "x": x}
    for s in strings(sl):
        if not s:
            continue
        for sep in ["a", "B", ",", "\n", "aB", ", "]:
            if s != sep:
                yield {"c": "split_join", "x": s, "sep": sep}
    ints3 = [1, 2, 3, -1] if quick else [1, 2, 3, -1, 10]
    strs3 = ["a", "B", "b", "A"]
    for xs in lists(ELEMS, ll):
        for f in ("reverse", "uniq", "compact"):
            yield {"c": "array", "f": f, "x": xs}
        for ys in ([], [1], ["a", None]):
            yield {"c": "array", "f": "concat", "x": xs, "arg": ys}
    # uniq compares values, not their printed form: 1 and "1" are different, two hashes with the same pairs in a
    # different order are the same (no int/float/bool look-alikes here: whether 1 and 1.0 are duplicates is left open)
    uniq_elems = [1, "1", "a", 2, "2", None, {"k": 1, "j": 2}, {"j": 2, "k": 1}, "A", "a "]
    for xs in lists(uniq_elems, 3):
        yield {"c": "array", "f": "uniq", "x": xs}
    for xs in lists(ints3, ll):
        yield {"c": "array", "f": "sort", "x": xs}
    for xs in lists(strs3, ll):
        yield {"c": "array", "f": "sort", "x": xs}
        yield {"c": "array", "f": "sort_natural", "x": xs}
    for xs in lists(DICTS, 3):
        yield {"c": "array", "f": "map", "x": xs, "arg": "k"}
        for f in ("where", "reject"):
            for val in (None, 1, "a", False):
                yield {"c": "array", "f": f, "x": xs, "arg": "k", "arg2": val}
    # explicit falsy targets select by equality like any other value (pools without int/bool look-alikes of the target)
    for pool, vals in (([{"k": 0}, {"k": 2}, {"k": None}, {"k": ""}, {"j": 0}, {"k": "0"}], (0, "", "0")), ([{"k": False}, {"k": True}, {"k": None}, {"k": "false"}, {}], (False, True))):
        for xs in lists(pool, 3):
            for f in ("where", "reject"):
                for val in vals:
                    yield {"c": "array", "f": f, "x": xs, "arg": "k", "arg2": val}
    for x in [*strings(3), *lists([1, 2, "a"], 3)]:
        for start in range(-5, 6):
            for ln in (None, 0, 1, 2, 5):
                yield {"c": "slice", "x": x, "start": start, "len": ln}
    for xs in lists(ELEMS, 3):
        yield {"c": "first_last", "x": xs}
    for s in strings(sl):
        for n in range(-1, len(s) + 3):
            for end in (None, "", ".", "--", "....."):
                yield {"c": "truncate", "x": s, "n": n, "end": end}
        for n in range(-1, 4):
            yield {"c": "truncatewords", "x": s, "n": n}
    nums = INTS + FLOATS + NUMSTR
    for f in ("plus", "minus", "times", "divided_by", "modulo", "at_least", "at_most"):
        for a in nums:
            for b in nums:
                yield {"c": "math", "f": f, "a": a, "b": b}
    for f in ("abs", "ceil", "floor", "round"):
        for a in nums + [2.675, -1.005, 0.125, 1e300]:
            yield {"c": "math", "f": f, "a": a}
    for a in FLOATS + [2.675, 183.357, -1.005, 7]:
        for b in (0, 1, 2, 3, "2"):
            yield {"c": "math", "f": "round", "a": a, "b": b}
    for x in [UNDEF, None, False, True, "", " ", "a", [], [1], {}, {"a": 1}, 0, 0.0, 1, -1]:
        for d in ["d", 1, 2.5, None, [1], {"k": 1}, True, ""]:
            yield {"c": "default", "x": x, "d": d}
            for af in (True, False):
                yield {"c": "default", "x": x, "d": d, "af": af}


def campaign(ctx: core.Ctx, tier: str, shard: int, nshards: int) -> None:
    for i, case in enumerate(all_cases(tier)):
        if i % nshards == shard:
            ctx.run(case, enumerated=True)


def finish_kwargs(ctx: core.Ctx, tier: str) -> dict:
    n = 3 if tier == "quick" else 4
    return {
        "rule": (
            f"Exhaustive typed pools: strings over {{a,B,space,newline,comma}} up to length {n}; lists over "
            f"{{1,2,'a','B',nil}} up to length {n}; lists of hashes up to 3; ints incl. negative and 1e30, floats, "
            "numeric and non-numeric strings for every pair of math operands; slice start -5..5 x length; truncate "
            "n from -1 to len+2 x 5 ellipses; default over 15 inputs x 8 fallbacks. Results are read back through "
            "the json filter and compared with reference implementations / laws (permutation + order for sorts). "
            "Non-trivial: per contract (truncate with n < len(ellipsis) or n = len(s) or n <= 0, math with a float "
            "or string operand, uniq with duplicates, slice crossing an end, default on a falsy-looking input...)."
        ),
        "exhaustive": True,
        "assumptions": [
            "not asserted (documentation silent/ambiguous): round on exact .5 ties, modulo with a negative float, "
            "slice starting before the beginning or with a negative length, sort of mixed types, truncatewords "
            "appending the ellipsis when the word count equals n",
        ],
    }
