"""C26 - null translations leave message text intact (reference formatter)."""

from __future__ import annotations

import gettext
import re

from hypothesis import strategies as st

from .. import core
from .. import envs
from .. import outcome as oc
from ..core import Verdict

PID = "C26"
SHARDS = {"quick": 8, "thorough": 16}
CFG = {"mode": "strict", "extra": True, "twice": False}

PIECES = ["%", "%%", "%s", "%(x)s", "%(y)s", "%(", "(", ")", " ", "\n", "a", "b", "<", "100", "% ", "%d", "s", "%(count)s"]
COUNTS = [None, -1, 0, 1, 2, 10**30, "2", "1", 2.5, "007", 1.0]
VARS = {"x": "X1", "y": 7}
NULL = gettext.NullTranslations()


def _count_int(c):
    if c is None:
        return None
    return int(c)


def _expected_texts(msg: str, extra: dict | None = None) -> set:
    """Message with %(name)s replaced; %% accepted as %% or %."""
    known = dict(VARS)
    known.update(extra or {})

    def sub(m):
        return str(known[m.group(1)])

    # placeholders are found left to right; a literal %% consumes both characters
    out_keep, out_collapse = [], []
    i = 0
    while i < len(msg):
        if msg.startswith("%%", i):
            out_keep.append("%%")
            out_collapse.append("%")
            i += 2
            continue
        m = re.compile(r"%\((\w+)\)s").match(msg, i)
        if m:
            # a placeholder naming a variable that does not exist renders as the (default) undefined value: nothing
            val = sub(m) if m.group(1) in known else ""
            out_keep.append(val)
            out_collapse.append(val)
            i = m.end()
            continue
        out_keep.append(msg[i])
        out_collapse.append(msg[i])
        i += 1
    return {"".join(out_keep), "".join(out_collapse)}


def _ws(s: str) -> str:
    return re.sub(r"\s+", " ", s).strip()


def _quote(s: str):
    if "'" not in s:
        return f"'{s}'"
    if '"' not in s:
        return f'"{s}"'
    return None


def evaluate(case) -> Verdict:
    v = Verdict()
    env = envs.make_env(CFG)
    kind = case["kind"]
    msg, plural, count, mctx = case["msg"], case.get("plural"), case.get("count"), case.get("ctx")
    data = dict(VARS)
    n = _count_int(count)
    # message variables passed as keyword arguments shadow the variables of the same name outside, whatever they hold
    kwsrc, kwval = [], {}
    for name, spec in sorted((case.get("kw") or {}).items()):
        lit, val = {"lit": ("'KW'", "KW"), "nil": ("nil", ""), "undef": ("nosuch", ""), "int": ("5", 5), "var": ("y", VARS["y"])}[spec]
        kwsrc.append(f"{name}: {lit}")
        kwval[name] = val
    if kind == "tag":
        # literal text inside the block; {{ x }} stands for a placeholder
        def body(m):
            return m.replace("%(x)s", "{{ x }}").replace("%(y)s", "{{ y }}")

        args = []
        if count is not None:
            data["n"] = count
            args.append("count: n")
        if mctx is not None:
            args.append(f"context: '{mctx}'")
        args.extend(kwsrc)
        src = "{% translate " + ", ".join(args) + " %}" + body(msg)
        if plural is not None:
            src += "{% plural %}" + body(plural)
        src += "{% endtranslate %}"
        chosen = msg
        if plural is not None:
            chosen = NULL.ngettext(msg, plural, 1 if n is None else n)
        # in the tag every % of the literal text is literal text
        want = {_ws(re.sub(r"%\((x|y)\)s", lambda m: str({**VARS, **kwval}[m.group(1)]), chosen))}
        norm = _ws
    else:
        form = case.get("form", "var")
        lit = _quote(msg) if form == "lit" and "\n" not in msg and "}}" not in msg else None
        if lit is None:
            data["m"] = msg
            left = "m"
        else:
            left = lit
        if plural is not None:
            data["p"] = plural
        if count is not None:
            data["n"] = count
        if kind == "t":
            args = []
            if mctx is not None:
                args.append(f"'{mctx}'")
            if plural is not None:
                args.append("plural: p")
            if count is not None:
                args.append("count: n")
            args.extend(kwsrc)
            src = "{{ " + left + " | t" + (": " + ", ".join(args) if args else "") + " }}"
            chosen = msg
            if plural is not None and n is not None:
                chosen = NULL.ngettext(msg, plural, n)
        elif kind == "gettext":
            src = "{{ " + left + " | gettext" + (": " + ", ".join(kwsrc) if kwsrc else "") + " }}"
            chosen = msg
        elif kind == "pgettext":
            src = "{{ " + left + " | pgettext: '" + (mctx or "c") + "'" + "".join(", " + k for k in kwsrc) + " }}"
            chosen = msg
        elif kind == "ngettext":
            if plural is None or count is None:
                return v
            src = "{{ " + left + " | ngettext: p, n" + "".join(", " + k for k in kwsrc) + " }}"
            chosen = NULL.ngettext(msg, plural, n)
        elif kind == "npgettext":
            if plural is None or count is None:
                return v
            src = "{{ " + left + " | npgettext: '" + (mctx or "c") + "', p, n" + "".join(", " + k for k in kwsrc) + " }}"
            chosen = NULL.ngettext(msg, plural, n)
        else:
            raise core.HarnessError(kind)
        # the t filter's keyword arguments are message variables: %(count)s is the count exactly as it was passed
        extra = {"count": count} if kind == "t" and count is not None else {}
        want = _expected_texts(chosen, {**extra, **kwval})
        norm = lambda s: s  # noqa: E731

    o = oc.render(case, lambda: env.from_string(src), **data)
    pct = "stray-percent" if re.search(r"%(?!\(\w+\)s)", msg + (plural or "")) else "plain"
    if o[0] != "ok":
        v.fail(f"{kind}:raises:{o[1]}:{pct}", f"{src!r} with {data!r:.120} -> {oc.short(o)}")
    elif norm(o[1]) not in {norm(w) for w in want}:
        which = "plural-choice" if plural is not None and norm(o[1]) in {norm(w) for w in _alts(msg, plural, kind)} else "text"
        v.fail(f"{kind}:{which}:{pct if which == 'text' else 'count=' + repr(count)}", f"{src!r} with {data!r:.120}\n   expected one of {sorted(want)!r}\n   observed {o[1]!r}")
    v.nontrivial = pct == "stray-percent" or (plural is not None and n is not None and n != 1)
    v.labels.append(kind + (":plural" if plural is not None else ""))
    v.info = src
    return v


def _alts(msg, plural, kind) -> set:
    """Texts of the *other* plural form (to classify a wrong-form failure)."""
    out = set()
    for m in (msg, plural):
        if kind == "tag":
            out.add(_ws(re.sub(r"%\((x|y)\)s", lambda mm: str(VARS[mm.group(1)]), m)))
        else:
            out |= _expected_texts(m) | _expected_texts(m, {"count": "?"})
    return out


@st.composite
def cases(draw):
    r = core.rng(draw)

    def message():
        return "".join(r.choice(PIECES) for _ in range(r.randint(1, 6)))

    kind = r.choice(["tag", "tag", "t", "t", "gettext", "ngettext", "pgettext", "npgettext"])
    case = {"kind": kind, "msg": message(), "form": r.choice(["var", "lit"])}
    if r.random() < 0.6 or kind in ("ngettext", "npgettext"):
        case["plural"] = message()
        case["count"] = r.choice(COUNTS[1:] if kind in ("ngettext", "npgettext") else COUNTS)
    elif r.random() < 0.3:
        case["count"] = r.choice(COUNTS)
    if r.random() < 0.3:
        case["ctx"] = r.choice(["menu", "c"])
    if r.random() < 0.35:
        case["kw"] = {name: r.choice(["lit", "nil", "nil", "undef", "int", "var"]) for name in r.sample(["x", "y"], r.choice([1, 1, 2]))}
        if r.random() < 0.7:
            case["msg"] += r.choice(["%(x)s", "%(y)s", " %(x)s %(y)s"])
    if kind == "tag":
        # markup delimiters cannot be literal text of a block
        for k in ("msg", "plural"):
            if k in case:
                case[k] = case[k].replace("{", "").replace("}", "") or "a"
    return case


def campaign(ctx: core.Ctx, tier: str, shard: int, nshards: int) -> None:
    total = 6000 if tier == "quick" else 150000
    core.drive(cases(), ctx.run, n=max(1, total // nshards), seed=core.sub_seed(ctx.seed, shard))


def finish_kwargs(ctx: core.Ctx, tier: str) -> dict:
    return {
        "rule": (
            "Messages of 1-6 pieces over {%, %%, %s, %(x)s, %(y)s, %(, (, ), space, newline, letters, <, %d} for the "
            "translate tag (singular/plural bodies, count, context) and the t, gettext, ngettext, pgettext, npgettext "
            "filters (message as literal and as variable); count in {absent, -1, 0, 1, 2, 1e30, '2', '1', 2.5, '007', "
            "1.0} (the t filter's %(count)s is the count as passed); extra "
            "environment, no catalogue. Expected = message with %(name)s replaced, %% kept or collapsed, tag output "
            "compared modulo whitespace runs; plural form chosen by gettext.NullTranslations. Non-trivial = a % "
            "that is not part of a placeholder, or a plural form selected with count != 1."
        ),
        "assumptions": ["%% may render as %% or % (the tag doubles % before printf-style formatting by design)"],
    }
