"""C27 - macro calls and with blocks bind arguments as documented (reference binder)."""

from __future__ import annotations

import itertools

from hypothesis import strategies as st

from .. import core
from .. import envs
from .. import outcome as oc
from ..core import Verdict

PID = "C27"
SHARDS = {"quick": 8, "thorough": 16}
CFG = {"mode": "strict", "extra": True, "twice": False}

PARAMS = ["p", "q", "r"]
BODY = (
    "p=[{{ p }}] q=[{{ q }}] r=[{{ r }}] args=[{{ args | join: ',' }}] "
    "kwargs=[{% for kv in kwargs %}{{ kv[0] }}:{{ kv[1] }};{% endfor %}]"
)


def _macro_case_src(case) -> tuple[str, dict]:
    sig = []
    for name, d in case["params"]:
        if d is None:
            sig.append(name)
        elif d == "var":
            sig.append(f"{name}: dv")
        else:
            sig.append(f"{name}: '{d}'")
    call = []
    for a in case["call"]:
        val = "nil" if a[-1] is None else f"'{a[-1]}'"  # (None: the argument is the literal nil)
        if a[0] == "pos":
            call.append(val)
        else:
            call.append(f"{a[1]}: {val}")
    src = (
        "{% assign dv = 'early' %}{% macro m " + ", ".join(sig) + " %}" + BODY + "{% endmacro %}"
        "{% assign dv = 'late' %}{% call m " + ", ".join(call) + " %}"
    )
    return src, {"p": "GLOBAL-p", "q": "GLOBAL-q"}


def _macro_expected(case) -> list:
    """All accepted outputs."""
    params = [n for n, _ in case["params"]]
    defaults = dict(case["params"])
    pos = [a[1] for a in case["call"] if a[0] == "pos"]
    kws = [(a[1], a[2]) for a in case["call"] if a[0] == "kw"]
    outs = []
    # a repeated keyword name: arguments are bound one after the other in written order, so the last one stands
    # (what the pinned tree does everywhere, and the reading of "positional arguments in order, then keyword arguments by name")
    for pick_last in (True,):
        bound: dict = {}
        for name, val in zip(params, pos):
            bound[name] = val
        extra_pos = pos[len(params):]
        kwargs: dict = {}
        seen: set = set()
        for name, val in kws:
            target = bound if name in params else kwargs
            if name in seen and not pick_last:
                continue
            seen.add(name)
            target[name] = val
        vals = {}
        for name in PARAMS:
            if name in bound:
                vals[name] = bound[name]
            elif name in params and defaults[name] is not None:
                vals[name] = "late" if defaults[name] == "var" else defaults[name]
            else:
                vals[name] = ""  # undefined (macro scope does not see the caller's locals)
                if name not in params and name in ("p", "q"):
                    vals[name] = f"GLOBAL-{name}"  # ...but it does see template globals
        nil = lambda x: "" if x is None else x  # noqa: E731  (a name bound to nil is bound: it prints nothing, whatever an outer scope holds)
        kw_s = "".join(f"{k}:{nil(v)};" for k, v in kwargs.items())
        outs.append(f"p=[{nil(vals['p'])}] q=[{nil(vals['q'])}] r=[{nil(vals['r'])}] args=[{','.join(extra_pos)}] kwargs=[{kw_s}]")
    return outs


# -- with ---------------------------------------------------------------------


def _with_src(items) -> str:
    out = []
    for it in items:
        if it[0] == "read":
            out.append("{{ " + it[1] + " }},")
        elif it[0] == "assign":
            out.append("{% assign " + it[1] + " = '" + it[2] + "' %}")
        elif it[0] == "loop":
            out.append("{% for i in (1.." + str(it[1]) + ") %}" + _with_src(it[2]) + "{% endfor %}")
        elif it[0] in ("break", "continue"):
            # leave the enclosing loop (through any with blocks in between) on the given iteration
            out.append("{% if i == " + str(it[1]) + " %}{% " + it[0] + " %}{% endif %}")
        else:
            args = ", ".join(f"{k}: {('\'' + e[1] + '\'') if e[0] == 'lit' else e[1]}" for k, e in it[1])
            out.append("{% with " + args + " %}" + _with_src(it[2]) + "{% endwith %}")
    return "".join(out)


class _Interrupt(Exception):
    def __init__(self, kind: str):
        super().__init__(kind)
        self.kind = kind


def _with_expected(items, scopes: list, top: dict, out: list | None = None) -> str:
    """Reference scope model; output goes to ``out`` so that text written before a break/continue survives it."""

    def lookup(name):
        for sc in reversed(scopes):
            if name in sc:
                return sc[name]
        return top.get(name, "")

    first = out is None
    if out is None:
        out = []
    for it in items:
        if it[0] == "read":
            out.append(str(lookup(it[1])) + ",")
        elif it[0] == "assign":
            top[it[1]] = it[2]  # assign always writes the template's top-level scope
        elif it[0] == "loop":
            for i in range(1, it[1] + 1):
                scopes.append({"i": i})
                try:
                    _with_expected(it[2], scopes, top, out)
                except _Interrupt as intr:
                    if intr.kind == "break":
                        break
                finally:
                    scopes.pop()
        elif it[0] in ("break", "continue"):
            if lookup("i") == it[1]:
                raise _Interrupt(it[0])
        else:
            new = {k: (e[1] if e[0] == "lit" else "" if e[0] == "nil" else lookup(e[1])) for k, e in it[1]}
            scopes.append(new)
            try:
                _with_expected(it[2], scopes, top, out)
            finally:
                scopes.pop()  # however the block is left, its names go with it
    return "".join(out) if first else ""


SEP = "|#|"


def _macro_seq_src(case) -> tuple[str, dict]:
    one, data = _macro_case_src({"params": case["params"], "call": case["calls"][0]})
    head = one[: one.index("{% call m")]
    calls = []
    for call in case["calls"]:
        src, _ = _macro_case_src({"params": case["params"], "call": call})
        calls.append(src[src.index("{% call m"):])
    return head + SEP.join(calls), data


def evaluate(case) -> Verdict:
    v = Verdict()
    env = envs.make_env(CFG)
    if case["kind"] == "macro_seq":
        # several calls of one macro in one render: each binds its own arguments, nothing carries over
        src, data = _macro_seq_src(case)
        o = oc.render(case, lambda: env.from_string(src), **data)
        if o[0] != "ok":
            v.fail(f"macro-seq:raises:{o[1]}", f"{src} -> {oc.short(o)}")
        else:
            parts = o[1].split(SEP)
            wants = [_macro_expected({"params": case["params"], "call": call}) for call in case["calls"]]
            if len(parts) != len(wants):
                v.fail("macro-seq:shape", f"{src}\n   observed {o[1]!r}")
            else:
                for i, (got, want) in enumerate(zip(parts, wants)):
                    if got not in want:
                        v.fail("macro-seq:call-depends-on-earlier-call" if i else "macro-seq:first-call", f"{src}\n   call {i + 1}: expected {want[0]!r}\n   observed {got!r}")
                        break
        v.nontrivial = len({str(c) for c in case["calls"]}) >= 2
        v.labels.append("macro-seq")
        v.info = src
        return v
    if case["kind"] == "macro":
        src, data = _macro_case_src(case)
        want = _macro_expected(case)
        o = oc.render(case, lambda: env.from_string(src), **data)
        if o[0] != "ok":
            v.fail(f"macro:raises:{o[1]}", f"{src} -> {oc.short(o)}")
        elif o[1] not in want:
            params = [n for n, _ in case["params"]]
            npos = sum(1 for a in case["call"] if a[0] == "pos")
            feat = "surplus-positional" if npos > len(params) else (
                "keyword" if any(a[0] == "kw" for a in case["call"]) else "defaults")
            v.fail(f"macro:binding:{feat}", f"{src}\n   expected {want[0]!r}\n   observed {o[1]!r}")
        params = [n for n, _ in case["params"]]
        npos = sum(1 for a in case["call"] if a[0] == "pos")
        kwn = [a[1] for a in case["call"] if a[0] == "kw"]
        v.nontrivial = (
            npos > len(params)
            or any(k not in params for k in kwn)
            or any(d is not None for n, d in case["params"][npos:] if n not in kwn)
            or any(k in params[:npos] for k in kwn)
        )
        v.labels.append("macro")
    else:
        items = case["items"]
        src = _with_src(items)
        data = {"a": "ga", "b": "gb"}
        want = _with_expected(items, [], dict(data))
        o = oc.render(case, lambda: env.from_string(src), **data)
        if o[0] != "ok":
            v.fail(f"with:raises:{o[1]}", f"{src} -> {oc.short(o)}")
        elif o[1] != want:
            v.fail("with:scope", f"{src}\n   expected {want!r}\n   observed {o[1]!r}")
        v.nontrivial = "{% with" in src and src.count("{% with") >= 1 and "{{" in src
        v.labels.append("with:depth" + str(_depth(items)))
    v.info = src
    return v


def _depth(items) -> int:
    return max([0] + [(1 if it[0] == "with" else 0) + _depth(it[2]) for it in items if it[0] in ("with", "loop")])


# ---------------------------------------------------------------------------


def macro_cases(tier: str):
    quick = tier == "quick"
    dflts = [None, "d", "var"]
    for nparams in range(0, 4):
        for ds in itertools.product(dflts, repeat=nparams):
            params = list(zip(PARAMS[:nparams], ds))
            for npos in range(0, 5):
                pos = [("pos", f"a{i}") for i in range(npos)]
                kwnames = PARAMS[:nparams] + ["z"]
                for nkw in range(0, 4 if not quick else 3):
                    for names in itertools.product(kwnames, repeat=nkw):
                        kws = [("kw", n, f"k{i}") for i, n in enumerate(names)]
                        yield {"kind": "macro", "params": [list(p) for p in params], "call": [list(a) for a in pos + kws]}
                        # the same call with nil for one argument (a positional one that meets a parameter, or a keyword one)
                        for j, a in enumerate(pos + kws):
                            if (a[0] == "pos" and j < nparams) or (a[0] == "kw" and (j - npos) % 2 == 0):
                                call = [list(x) for x in pos + kws]
                                call[j][-1] = None
                                yield {"kind": "macro", "params": [list(p) for p in params], "call": call}
                        if kws and pos and not quick:
                            # a keyword argument written before the positional ones
                            yield {"kind": "macro", "params": [list(p) for p in params], "call": [list(a) for a in kws[:1] + pos + kws[1:]]}


@st.composite
def macro_seq_cases(draw):
    r = core.rng(draw)
    nparams = r.randint(0, 3)
    params = [[n, r.choice([None, None, "d", "var"])] for n in PARAMS[:nparams]]

    def call():
        pos = [["pos", f"a{r.randint(0, 9)}"] for _ in range(r.choice([0, 0, 1, 2, 3]))]
        kws = [["kw", r.choice(PARAMS[:nparams] + ["z"]), f"k{r.randint(0, 9)}"] for _ in range(r.choice([0, 0, 1, 2]))]
        return pos + kws

    return {"kind": "macro_seq", "params": params, "calls": [call() for _ in range(r.choice([2, 3, 3]))]}


@st.composite
def with_cases(draw):
    r = core.rng(draw)
    names = ["a", "b", "c"]

    def items(depth, in_loop=False):
        out = []
        for _ in range(r.randint(1, 4)):
            c = r.random()
            if in_loop and c < 0.12:
                out.append([r.choice(["break", "continue"]), r.choice([1, 2])])
            elif c < 0.45 or depth == 0:
                out.append(["read", r.choice(names)])
            elif c < 0.55:
                out.append(["assign", r.choice(names), r.choice(["s1", "s2"])])
            elif c < 0.7 and not in_loop:
                out.append(["loop", r.choice([1, 2, 3]), items(depth - 1, True)])
            else:
                ks = r.sample(names, r.randint(1, 3))
                args = [[k, (["lit", f"w{depth}{k}"] if r.random() < 0.45 else ["var", r.choice(names + ["nosuch"])] if r.random() < 0.8 else ["nil", "nil"])] for k in ks]
                out.append(["with", args, items(depth - 1, in_loop)])
        return out

    return {"kind": "with", "items": items(3)}


def campaign(ctx: core.Ctx, tier: str, shard: int, nshards: int) -> None:
    quick = tier == "quick"
    for i, case in enumerate(macro_cases(tier)):
        if i % nshards == shard:
            ctx.run(case, enumerated=True)
    core.drive(with_cases(), ctx.run, n=(3000 if quick else 40000) // nshards, seed=core.sub_seed(ctx.seed, shard))
    core.drive(macro_seq_cases(), ctx.run, n=(2000 if quick else 30000) // nshards, seed=core.sub_seed(ctx.seed, shard, 1))


def finish_kwargs(ctx: core.Ctx, tier: str) -> dict:
    return {
        "rule": (
            "Exhaustive: macro signatures with 0-3 parameters, each without default / with a literal default / "
            "with a late-bound variable default, called with 0-4 positional and 0-"
            + ("2" if tier == "quick" else "3")
            + " keyword arguments named after any parameter or a foreign name (duplicates included, keywords before "
            "positionals in thorough); the body prints every parameter, args and kwargs and is compared with a "
            "reference binder. Random nested with blocks (depth <= 3) over 3 names with arguments referring to "
            "outer names, reads inside and after each block and interleaved assigns, also inside for loops that are left "
            "by break or continue from within a with block, against a scope-stack model. Random sequences of 2-3 calls "
            "of one macro in one render, each compared with the binder on its own. "
            "Non-trivial (macro) = surplus arguments, a default fallback or a keyword overriding a positional."
        ),
        "exhaustive": True,
        "assumptions": ["for a repeated keyword name the last value stands (arguments are bound in written order; the pinned tree does so throughout)"],
    }
