"""Reference flattener for template inheritance (C18).

chain = [leaf, parent, ..., root]; each template = {"pre": text rendered before
its extends tag, "items": [...]}.  items:
  ["text", s] | ["var", name] | ["block", name, required, [items]] | ["super"] |
  ["loop", [items]]   (a for loop over (1..2) binding `i`)
"""

from __future__ import annotations


class Required(Exception):
    pass


class Inheritance(Exception):
    pass


class Recursive(Exception):
    """Blocks that (across templates) contain each other: no finite flattening exists."""


def blocks_of(items, out=None) -> list:
    out = [] if out is None else out
    for it in items:
        if it[0] == "block":
            out.append(it)
            blocks_of(it[3], out)
        elif it[0] == "loop":
            blocks_of(it[1], out)
    return out


def flatten(chain: list, data: dict) -> str:
    defs: dict = {}
    for t in chain:  # leaf first, root last
        names = [b[1] for b in blocks_of(t["items"])]
        if len(names) != len(set(names)):
            raise Inheritance("duplicate block")
        for b in blocks_of(t["items"]):
            defs.setdefault(b[1], []).append(b)

    active: list = []

    def blank_item(x) -> bool:
        if x[0] == "text":
            return not x[1].strip()
        if x[0] == "loop":  # a loop whose own body is blank (or empty) is blank too
            return all(blank_item(y) for y in x[1])
        return False  # output statements, and block tags whatever they hold

    def blank(items) -> bool:
        # the body of a control-flow or block tag that holds nothing but whitespace text (and blank loops) renders
        # nothing (Environment.suppress_blank_control_flow_blocks, on by default); a block tag itself is never blank
        return bool(items) and all(blank_item(x) for x in items)

    def render(items, env: dict, name=None, k: int = 0, body: bool = False) -> str:
        if body and blank(items):
            return ""
        out = []
        for it in items:
            op = it[0]
            if op == "text":
                out.append(it[1])
            elif op == "var":
                v = env.get(it[1], "")
                out.append("" if v is None else str(v))
            elif op == "loop":
                for i in (1, 2):
                    out.append(render(it[1], {**env, "i": i}, name, k, body=True))
            elif op == "block":
                d = defs[it[1]][0]
                if d[2]:
                    raise Required(it[1])
                if it[1] in active:
                    raise Recursive(it[1])
                active.append(it[1])
                out.append(render(d[3], env, it[1], 0, body=True))
                active.pop()
            elif op == "super":
                if name is not None and k + 1 < len(defs[name]):
                    out.append(render(defs[name][k + 1][3], env, name, k + 1, body=True))
        return "".join(out)

    root = chain[-1]
    return chain[0].get("pre", "") + render(root["items"], dict(data)) if len(chain) > 1 else render(root["items"], dict(data))


def to_source(t: dict, parent) -> str:
    def items_src(items) -> str:
        out = []
        for it in items:
            op = it[0]
            if op == "text":
                out.append(it[1])
            elif op == "var":
                out.append("{{ " + it[1] + " }}")
            elif op == "loop":
                out.append("{% for i in (1..2) %}" + items_src(it[1]) + "{% endfor %}")
            elif op == "block":
                end = it[4] if len(it) > 4 else None
                out.append(
                    "{% block " + it[1] + (" required" if it[2] else "") + " %}" + items_src(it[3])
                    + "{% endblock" + (" " + end if end else "") + " %}"
                )
            elif op == "super":
                out.append("{{ block.super }}")
        return "".join(out)

    head = ""
    if parent is not None:
        o, c = EXTENDS_WRAPS[t.get("wrap") or "none"]
        head = t.get("pre", "") + o + "{% extends '" + parent + "' %}" + c
    return head + items_src(t["items"])


# the extends tag may stand inside a block that is entered (a conditionally chosen layout): the result is the same
EXTENDS_WRAPS = {
    "none": ("", ""), "if": ("{% if true %}", "{% endif %}"), "unless": ("{% unless false %}", "{% endunless %}"),
    "else": ("{% if false %}{% else %}", "{% endif %}"), "case": ("{% case 1 %}{% when 1 %}", "{% endcase %}"),
    "for": ("{% for q in (1..1) %}", "{% endfor %}"), "with": ("{% with q: 1 %}", "{% endwith %}"), "if-if": ("{% if true %}{% if x %}", "{% endif %}{% endif %}"),
}
