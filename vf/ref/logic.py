"""Reference model of Liquid truthiness, comparison and membership.

Written from docs/tag_reference.md ("Only false, nil/null and the special
undefined object are falsy"; and/or right associative) and the property text,
not from the implementation.  Results: True, False, TYPE_ERROR, or DONT_CARE
where the documentation does not decide.
"""

from __future__ import annotations

from decimal import Decimal

TYPE_ERROR = "TypeError"
DONT_CARE = "DontCare"
UNDEF = object()  # undefined variable
EMPTY = object()  # the `empty` literal
BLANK = object()  # the `blank` literal


def kind(v) -> str:
    if v is UNDEF or v is None:
        return "nil"
    if v is EMPTY:
        return "empty"
    if v is BLANK:
        return "blank"
    if isinstance(v, bool):
        return "bool"
    if isinstance(v, (int, float, Decimal)):
        return "num"
    if isinstance(v, str):
        return "str"
    if isinstance(v, (list, tuple)):
        return "list"
    if isinstance(v, dict):
        return "dict"
    if isinstance(v, range):
        return "range"
    return "other"


def truthy(v) -> bool:
    return not (v is False or v is None or v is UNDEF)


def _has_bool_or_nested(v) -> bool:
    if isinstance(v, (list, tuple)):
        return any(isinstance(x, bool) or isinstance(x, (list, dict, float)) or x is None for x in v)
    if isinstance(v, dict):
        return any(isinstance(x, bool) or isinstance(x, (list, dict, float)) or x is None for x in v.values())
    return False


def eq(a, b):
    ka, kb = kind(a), kind(b)
    if ka in ("empty", "blank") and kb in ("empty", "blank"):
        return DONT_CARE
    if kb in ("empty", "blank"):
        a, b, ka, kb = b, a, kb, ka
    if ka == "empty":
        if kb in ("nil", "bool", "range"):
            return DONT_CARE
        return kb in ("str", "list", "dict") and len(b) == 0
    if ka == "blank":
        if kb in ("nil", "bool", "range"):
            return DONT_CARE
        if kb == "str":
            return b == "" or b.isspace()
        return kb in ("list", "dict") and len(b) == 0
    if ka == "bool" or kb == "bool":
        return ka == kb and a == b
    if ka == "nil" or kb == "nil":
        return ka == kb
    if ka != kb:
        return False
    if ka == "num":
        if any(isinstance(x, float) and x != x for x in (a, b)):
            return DONT_CARE
        from fractions import Fraction

        return Fraction(a) == Fraction(b)
    if ka in ("list", "dict"):
        if _has_bool_or_nested(a) or _has_bool_or_nested(b):
            return DONT_CARE if a == b else False
        return a == b
    if ka == "range":
        if len(a) == 0 and len(b) == 0:
            return DONT_CARE
        return a == b
    return a == b


def lt(a, b):
    ka, kb = kind(a), kind(b)
    if ka == "bool" or kb == "bool":
        return ("not-true",)  # False or a type error; never True
    if ka == "num" and kb == "num":
        return a < b
    if ka == "str" and kb == "str":
        return a < b
    return TYPE_ERROR


def le(a, b):
    e = eq(a, b)
    l = lt(a, b)
    if e is True:
        return True if l in (True, False) else DONT_CARE
    if e is DONT_CARE:
        return DONT_CARE
    return l


def contains(a, b):
    ka, kb = kind(a), kind(b)
    if ka == "nil" or kb == "nil":
        return False
    if ka in ("empty", "blank") or kb in ("empty", "blank"):
        return DONT_CARE
    if (ka == "bool" and a is False) or (kb == "bool" and b is False):
        return DONT_CARE
    if ka == "str":
        if kb == "str":
            return b in a
        if kb == "num" and isinstance(b, int):
            return str(b) in a
        return DONT_CARE
    if ka == "list":
        if kb in ("bool",) or any(isinstance(x, bool) for x in a):
            return DONT_CARE
        if kb == "num" and any(isinstance(x, float) for x in [b, *a]):
            return DONT_CARE
        if kb in ("list", "dict", "range"):
            return DONT_CARE
        return any(type(x) is type(b) and x == b for x in a) or (kb == "num" and any(kind(x) == "num" and x == b for x in a))
    if ka == "dict":
        if kb == "str":
            return b in a
        if kb in ("list", "dict"):
            return ("false-or-error",)
        return DONT_CARE
    if ka == "range":
        if kb == "num" and isinstance(b, int):
            return b in a
        if kb == "str":
            return False
        return DONT_CARE
    return ("false-or-error",)  # number/true on the left


def compare(op: str, a, b):
    if op == "==":
        return eq(a, b)
    if op in ("!=", "<>"):
        r = eq(a, b)
        return (not r) if r in (True, False) else r
    if op == "<":
        return lt(a, b)
    if op == ">":
        return lt(b, a)
    if op == "<=":
        return le(a, b)
    if op == ">=":
        return le(b, a)
    if op == "contains":
        return contains(a, b)
    raise ValueError(op)


def accepts(expected, observed) -> bool:
    """``observed`` is True, False or TYPE_ERROR (a LiquidTypeError was raised)."""
    if expected is DONT_CARE:
        return True
    if expected == ("not-true",):
        return observed in (False, TYPE_ERROR)
    if expected == ("false-or-error",):
        # undocumented operand combination: false or any Liquid error, never true
        return observed in (False, TYPE_ERROR) or (isinstance(observed, tuple) and observed[0] == "liquid")
    return expected == observed


# -- boolean trees -----------------------------------------------------------
# tree: ("lit", bool) | ("and"|"or", l, r) | ("not", e) | ("group", e)


def eval_tree(t) -> bool:
    k = t[0]
    if k == "lit":
        return t[1]
    if k == "and":
        return eval_tree(t[1]) and eval_tree(t[2])
    if k == "or":
        return eval_tree(t[1]) or eval_tree(t[2])
    if k == "not":
        return not eval_tree(t[1])
    if k == "group":
        return eval_tree(t[1])
    raise ValueError(k)


def eval_flat(tokens: list) -> bool:
    """Evaluate a flat token list with the documented grammar:
    and/or equal precedence, right associative; parentheses group; `not`
    applies to the operand that follows it (a literal or a group)."""
    pos = 0

    def expr() -> bool:
        nonlocal pos
        left = operand()
        if pos < len(tokens) and tokens[pos] in ("and", "or"):
            op = tokens[pos]
            pos += 1
            right = expr()  # right associative
            return (left and right) if op == "and" else (left or right)
        return left

    def operand() -> bool:
        nonlocal pos
        tok = tokens[pos]
        if tok == "not":
            pos += 1
            return not operand()
        if tok == "(":
            pos += 1
            val = expr()
            assert tokens[pos] == ")"
            pos += 1
            return val
        pos += 1
        return tok

    val = expr()
    assert pos == len(tokens)
    return val
