"""Reference model for `for` and `tablerow` (from docs/tag_reference.md and the
reference implementation's slicing rule: from = offset, to = from + limit)."""

from __future__ import annotations

from typing import Any
from typing import Optional


def items_of(coll: Any) -> list:
    if isinstance(coll, dict):
        return [[k, v] for k, v in coll.items()]
    if isinstance(coll, range):
        return list(coll)
    if isinstance(coll, str):
        return [coll] if coll else []
    if isinstance(coll, (list, tuple)):
        return list(coll)
    return []


def segment(n: int, offset: Optional[int], limit: Optional[int]) -> list:
    """Indexes visited: from <= i < to, with to = from + limit when a limit is given."""
    frm = offset or 0
    to = frm + limit if limit is not None else None
    return [i for i in range(n) if i >= frm and (to is None or i < to)]


def show(item: Any) -> str:
    if isinstance(item, (list, tuple)):
        return "=".join(show(x) for x in item)
    if item is None:
        return ""
    if item is True:
        return "true"
    if item is False:
        return "false"
    return str(item)


def b(x: bool) -> str:
    return "true" if x else "false"


def helpers(pos: int, length: int) -> str:
    return f"{pos + 1}:{pos}:{length - pos}:{length - pos - 1}:{b(pos == 0)}:{b(pos == length - 1)}:{length}"
