"""Reference model of a bounded LRU map: a plain list, most recent first.

Deliberately a different data structure from the OrderedDict under test.
"""

from __future__ import annotations


class ModelLRU:
    def __init__(self, capacity: int):
        self.capacity = capacity
        self.items: list[list] = []  # [[key, value], ...] most recent first
        self.fifo: list = []  # keys in insertion order (for the non-trivial rule)
        self.last_eviction_differs_from_fifo = False
        self.evictions = 0

    def _find(self, key):
        for i, (k, _v) in enumerate(self.items):
            if k == key:
                return i
        return -1

    def set(self, key, value) -> None:
        i = self._find(key)
        if i >= 0:
            self.items.pop(i)
        else:
            if len(self.items) >= self.capacity:
                victim = self.items.pop()[0]
                self.evictions += 1
                if self.fifo and self.fifo[0] != victim:
                    self.last_eviction_differs_from_fifo = True
                self.fifo.remove(victim)
            self.fifo.append(key)
        self.items.insert(0, [key, value])

    def getitem(self, key):
        i = self._find(key)
        if i < 0:
            raise KeyError(key)
        item = self.items.pop(i)
        self.items.insert(0, item)
        return item[1]

    def get(self, key, default=None):
        try:
            return self.getitem(key)
        except KeyError:
            return default

    def delete(self, key) -> None:
        i = self._find(key)
        if i < 0:
            raise KeyError(key)
        self.items.pop(i)
        self.fifo.remove(key)

    def contains(self, key) -> bool:
        return self._find(key) >= 0

    def __len__(self) -> int:
        return len(self.items)

    def keys(self) -> list:
        return [k for k, _ in self.items]

    def values(self) -> list:
        return [v for _, v in self.items]

    def pairs(self) -> list:
        return [(k, v) for k, v in self.items]
