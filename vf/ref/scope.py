"""Reference interpreter for variable resolution (C14).

Program (JSON):
  ["out", path] | ["assign", name, val] | ["capture", name, [stmts]] |
  ["for", var, val, [stmts]] | ["tablerow", var, val, [stmts]] | ["with", [[name, val]...], [stmts]] |
  ["include", partial_name, bind|None, [[name, val]...]] | ["incr", name] | ["decr", name] | ["text", s]
  val  = ["lit", json] | ["path", path]
  bind = ["with"|"for", path, alias|None]
  path = [root | ["v", path], seg...]; seg = ["k", key] | ["q", key] | ["i", int] | ["v", path]

Lookup order (docs/render_context.md, property text): block scopes innermost
first, then assigned/captured variables (always the template's top-level
scope), render arguments, front matter, template globals, environment globals,
built-ins, increment/decrement counters.
"""

from __future__ import annotations

from typing import Any

UNDEF = object()


def stringify(v: Any) -> str:
    if v is UNDEF or v is None:
        return ""
    if v is True:
        return "true"
    if v is False:
        return "false"
    if isinstance(v, list):
        return "".join(str(x) if not isinstance(x, str) else x for x in v)
    if isinstance(v, tuple):
        return str(v)
    if isinstance(v, range):
        return f"{v.start}..{v.stop - 1}"
    return str(v)


class Interp:
    def __init__(self, *, args: dict, matter: dict, tglobals: dict, eglobals: dict, partials: dict,
                 string_first_and_last: bool = False, string_sequences: bool = False):
        self.blocks: list = []  # innermost last
        self.locals: dict = {}
        self.layers = [args, matter, tglobals, eglobals]
        self.counters: dict = {}
        self.partials = partials
        self.sfl = string_first_and_last
        self.sseq = string_sequences
        self.out: list = []
        self.unspecified = False  # set when the program hits behaviour the documentation does not decide

    # -- resolution -------------------------------------------------------
    def root(self, name: str) -> Any:
        for sc in reversed(self.blocks):
            if name in sc:
                return sc[name]
        if name in self.locals:
            return self.locals[name]
        for layer in self.layers:
            if name in layer:
                return layer[name]
        if name in self.counters:
            return self.counters[name]
        return UNDEF

    def item(self, obj: Any, key: Any) -> Any:
        if obj is UNDEF:
            return UNDEF
        if key is UNDEF:
            key = None
        if key == "size" and isinstance(key, str):
            if isinstance(obj, dict) and "size" in obj:
                return obj["size"]
            if isinstance(obj, (list, dict, str, tuple)):
                return len(obj)
            return UNDEF
        if key == "first" and isinstance(key, str):
            if isinstance(obj, dict):
                if "first" in obj:
                    return obj["first"]
                return list(obj.items())[0] if obj else UNDEF
            if isinstance(obj, str):
                return (obj[0] if obj else UNDEF) if self.sfl else UNDEF
            if isinstance(obj, (list, tuple)):
                return obj[0] if obj else UNDEF
            return UNDEF
        if key == "last" and isinstance(key, str):
            if isinstance(obj, dict):
                return obj["last"] if "last" in obj else UNDEF
            if isinstance(obj, str):
                return (obj[-1] if obj else UNDEF) if self.sfl else UNDEF
            if isinstance(obj, (list, tuple)):
                return obj[-1] if obj else UNDEF
            return UNDEF
        if isinstance(obj, dict):
            try:
                return obj[key] if key in obj else UNDEF
            except TypeError:
                return UNDEF
        if isinstance(obj, (list, tuple, str)) and isinstance(key, bool):
            self.unspecified = True  # a boolean used as an index
            return UNDEF
        if isinstance(obj, (list, tuple)):
            if not isinstance(key, int):
                return UNDEF
            return obj[key] if -len(obj) <= key < len(obj) else UNDEF
        if isinstance(obj, str):
            if isinstance(key, int) and not isinstance(key, bool) and self.sseq:
                return obj[key] if -len(obj) <= key < len(obj) else UNDEF
            return UNDEF
        return UNDEF

    def path(self, p: list) -> Any:
        if isinstance(p[0], list):
            # [inner] at the root: the variable named by the value of the inner path
            name = self.path(p[0][1])
            obj = self.root(name) if isinstance(name, str) else UNDEF
        else:
            obj = self.root(p[0])
        for seg in p[1:]:
            kind, val = seg
            key = self.path(val) if kind == "v" else val
            obj = self.item(obj, key)
        return obj

    def val(self, v: list) -> Any:
        return v[1] if v[0] == "lit" else self.path(v[1])

    # -- execution --------------------------------------------------------
    def emit(self, s: str) -> None:
        self.out[-1].append(s) if self.out else None

    def run(self, prog: list) -> str:
        self.out.append([])
        self.block(prog)
        return "".join(self.out.pop())

    def block(self, stmts: list) -> None:
        for st in stmts:
            self.stmt(st)

    def iterable(self, v: Any) -> list:
        if isinstance(v, dict):
            return list(v.items())
        if isinstance(v, (list, tuple)):
            return list(v)
        if isinstance(v, range):
            return list(v)
        if isinstance(v, str):
            if self.sseq:
                return list(v)  # string_sequences: iterate characters
            return [v] if v else []
        return []

    def stmt(self, st: list) -> None:  # noqa: PLR0912
        op = st[0]
        if op == "text":
            self.emit(st[1])
        elif op == "out":
            self.emit(stringify(self.path(st[1])))
        elif op == "assign":
            v = self.val(st[2])
            self.locals[st[1]] = v
        elif op == "capture":
            self.out.append([])
            self.block(st[2])
            self.locals[st[1]] = "".join(self.out.pop())
        elif op == "for":
            items = self.iterable(self.val(st[2]))
            if items:
                ns = {"forloop": {"index": 0, "length": len(items)}, st[1]: None}
                self.blocks.append(ns)
                for i, it in enumerate(items):
                    ns[st[1]] = it
                    ns["forloop"] = {"index": i + 1, "length": len(items), "first": i == 0, "last": i == len(items) - 1}
                    self.block(st[3])
                self.blocks.pop()
        elif op == "tablerow":
            items = self.iterable(self.val(st[2]))
            self.emit('<tr class="row1">\n')
            ns: dict = {}
            self.blocks.append(ns)
            for i, it in enumerate(items):
                ns[st[1]] = it
                self.emit(f'<td class="col{i + 1}">')
                self.block(st[3])
                self.emit("</td>")
            self.blocks.pop()
            self.emit("</tr>\n")
        elif op == "with":
            ns = {k: self.val(v) for k, v in st[1]}
            self.blocks.append(ns)
            self.block(st[2])
            self.blocks.pop()
        elif op == "include":
            name, bind, kwargs = st[1], st[2], st[3]
            ns = {k: self.val(v) for k, v in kwargs}
            self.blocks.append(ns)
            body = self.partials[name]
            if bind is not None:
                _kw, p, alias = bind
                v = self.path(p)
                key = alias or name.split(".")[0]
                if isinstance(v, (list, tuple)):
                    for it in v:
                        ns[key] = it
                        self.partial(body)
                else:
                    ns[key] = v
                    self.partial(body)
            else:
                self.partial(body)
            self.blocks.pop()
        elif op == "incr":
            cur = self.counters.get(st[1], 0)
            self.counters[st[1]] = cur + 1
            self.emit(str(cur))
        elif op == "decr":
            cur = self.counters.get(st[1], 0) - 1
            self.counters[st[1]] = cur
            self.emit(str(cur))
        else:
            raise ValueError(op)

    def partial(self, body: list) -> None:
        # render_with_context pushes its own (empty) namespace holding "partial"
        self.blocks.append({"partial": True})
        self.block(body)
        self.blocks.pop()


# ---------------------------------------------------------------------------
# program -> Liquid source


def path_src(p: list) -> str:
    out = [p[0] if isinstance(p[0], str) else "[" + path_src(p[0][1]) + "]"]
    for kind, val in p[1:]:
        if kind == "k":
            out.append("." + val)
        elif kind == "q":
            out.append(f"['{val}']")
        elif kind == "i":
            out.append(f"[{val}]")
        else:
            out.append("[" + path_src(val) + "]")
    return "".join(out)


def val_src(v: list) -> str:
    if v[0] == "path":
        return path_src(v[1])
    x = v[1]
    if isinstance(x, bool):
        return "true" if x else "false"
    if x is None:
        return "nil"
    if isinstance(x, (int, float)):
        return repr(x)
    if isinstance(x, str):
        return f"'{x}'"
    if isinstance(x, list) and len(x) == 2 and x[0] == "range":
        return f"({x[1][0]}..{x[1][1]})"
    raise ValueError(f"no literal form for {x!r}")


def to_source(prog: list) -> str:
    out = []
    for st in prog:
        op = st[0]
        if op == "text":
            out.append(st[1])
        elif op == "out":
            out.append("{{ " + path_src(st[1]) + " }}")
        elif op == "assign":
            out.append("{% assign " + st[1] + " = " + val_src(st[2]) + " %}")
        elif op == "capture":
            out.append("{% capture " + st[1] + " %}" + to_source(st[2]) + "{% endcapture %}")
        elif op == "for":
            out.append("{% for " + st[1] + " in " + val_src(st[2]) + " %}" + to_source(st[3]) + "{% endfor %}")
        elif op == "tablerow":
            out.append("{% tablerow " + st[1] + " in " + val_src(st[2]) + " %}" + to_source(st[3]) + "{% endtablerow %}")
        elif op == "with":
            out.append("{% with " + ", ".join(f"{k}: {val_src(v)}" for k, v in st[1]) + " %}" + to_source(st[2]) + "{% endwith %}")
        elif op == "include":
            s = "{% include '" + st[1] + "'"
            if st[2] is not None:
                kw, p, alias = st[2]
                s += f" {kw} {path_src(p)}" + (f" as {alias}" if alias else "")
            if st[3]:
                s += ", " + ", ".join(f"{k}: {val_src(v)}" for k, v in st[3])
            out.append(s + " %}")
        elif op == "incr":
            out.append("{% increment " + st[1] + " %}")
        elif op == "decr":
            out.append("{% decrement " + st[1] + " %}")
        else:
            raise ValueError(op)
    return "".join(out)
