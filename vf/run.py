"""CLI:  python -m vf.run <Cxx> <quick|thorough> | --replay <file>

exit 0  property held on everything explored (KNOWN-FINDING lines possible)
exit 1  VIOLATION property=<id> replay=<path>
exit 2  harness error
"""

from __future__ import annotations

import importlib
import json
import os
import pkgutil
import sys
import time
import traceback

from . import core


def _module_for(pid: str):
    from . import props

    for m in pkgutil.iter_modules(props.__path__):
        if m.name.lower().startswith(pid.lower() + "_") or m.name.lower() == pid.lower():
            return importlib.import_module(f"vf.props.{m.name}")
    raise core.HarnessError(f"no property module for {pid}")


def _replay(path: str) -> int:
    rec = json.loads(open(path).read())
    pid = rec["property"]
    mod = _module_for(pid)
    v = mod.evaluate(rec["case"])
    if v.failures:
        for b, d in v.failures:
            print(f"FAILS property={pid} bucket={b}\n  detail={d[:1000]}")
        print(f"VIOLATION property={pid} replay={path}")
        return 1
    print(f"replay of {path}: property {pid} holds on this case")
    return 0


def main(argv: list[str]) -> int:
    if len(argv) >= 2 and argv[0] == "--replay":
        return _replay(argv[1])
    if len(argv) >= 3 and argv[1] == "--replay":
        return _replay(argv[2])
    if len(argv) >= 3 and argv[2] == "--replay":
        return _replay(argv[3])
    if len(argv) < 2:
        print(__doc__)
        return 2
    pid, tier = argv[0], argv[1]
    tier = os.environ.get("VERIF_TIER", tier) if tier not in ("quick", "thorough") else tier
    mod = _module_for(pid)
    seed = core.verif_seed()
    started = time.time()
    ctx = core.Ctx(mod.PID, tier, seed, mod.evaluate)
    ctx.subkey = getattr(mod, "failure_subkey", None)
    # Saved regression inputs are replayed first.
    cdir = core.CORPUS_DIR / pid
    if cdir.is_dir():
        for f in sorted(cdir.glob("*.json")):
            rec = json.loads(f.read_text())
            ctx.run(rec["case"] if isinstance(rec, dict) and "case" in rec else rec)
    nshards = mod.SHARDS.get(tier, 1) if hasattr(mod, "SHARDS") else 1
    core.run_sharded(mod, ctx, tier, nshards)
    kw = mod.finish_kwargs(ctx, tier) if hasattr(mod, "finish_kwargs") else {}
    try:
        # the module's rule text says what counts as non-trivial; the registered description is the complete list of families
        from . import manifest_data

        text = manifest_data.CHECKS.get(pid, {}).get("text")
        if text and kw.get("rule") is not None:
            kw["rule"] = kw["rule"] + " || Everything the check generates (as registered in MANIFEST.json): " + text
    except Exception:  # noqa: BLE001
        pass
    return core.finish(ctx, started=started, **kw)


if __name__ == "__main__":
    try:
        sys.exit(main(sys.argv[1:]))
    except core.HarnessError as err:
        print(f"HARNESS-ERROR: {err}", file=sys.stderr)
        sys.exit(2)
    except SystemExit:
        raise
    except BaseException:  # noqa: BLE001
        traceback.print_exc()
        print("HARNESS-ERROR: unexpected exception in harness", file=sys.stderr)
        sys.exit(2)
